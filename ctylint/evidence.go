package main

import (
	"encoding/json"
	"fmt"
	"math/rand"
	"os"
	"os/exec"
	"path/filepath"
	"sort"
	"strings"
	"sync"
)

type AuditResult struct {
	Total        int      `json:"variants_total"`
	Detected     int      `json:"variants_detected"`
	Stale        int      `json:"variants_stale"`
	Missed       []string `json:"variants_missed"`
	Names        []string `json:"variants"`
	BenignTotal  int      `json:"benign_refactorings_total"`
	BenignSilent int      `json:"benign_refactorings_silent"`
	BenignStale  int      `json:"benign_refactorings_stale"`
}

// runAudit is the sensitivity audit of the thorough tier. It tests the checker, not /repo:
// every seeded mutant and every reverted fix under /verif/seeded that this property's rules are
// recorded to detect (seeded/EXPECT.json, written by tools/matrix.py) is applied to /repo's
// current source in memory (one ctylint process each) and must still be reported by one of the
// recorded rules. A patch that no longer applies is counted stale, not missed.
func runAudit(prop string, rules []*Rule) *AuditResult {
	res := &AuditResult{}
	dir := filepath.Join(verifDir(), "seeded")
	var expect map[string]struct {
		Property string              `json:"property"`
		Detected map[string][]string `json:"detected"`
	}
	b, err := os.ReadFile(filepath.Join(dir, "EXPECT.json"))
	if err != nil || json.Unmarshal(b, &expect) != nil {
		return res // no corpus: nothing to audit
	}
	var mine []string
	for name, e := range expect {
		if len(e.Detected[prop]) > 0 {
			if _, err := os.Stat(filepath.Join(dir, name, "patch.diff")); err == nil {
				mine = append(mine, name)
			}
		}
	}
	sort.Strings(mine)
	rand.New(rand.NewSource(int64(*flagSeed))).Shuffle(len(mine), func(i, j int) { mine[i], mine[j] = mine[j], mine[i] })
	exe, err := os.Executable()
	if err != nil {
		res.Missed = append(res.Missed, "cannot locate own executable")
		return res
	}
	var mu sync.Mutex
	sem := make(chan struct{}, 6)
	var wg sync.WaitGroup
	for _, name := range mine {
		name := name
		wg.Add(1)
		sem <- struct{}{}
		go func() {
			defer wg.Done()
			defer func() { <-sem }()
			tmp, _ := os.CreateTemp("", "ctylint-audit-*.json")
			tmp.Close()
			defer os.Remove(tmp.Name())
			cmd := exec.Command(exe, "-prop", prop, "-tier", "quick", "-repo", *flagRepo, "-verif", verifDir(), "-overlaypatch", filepath.Join(dir, name, "patch.diff"), "-json", tmp.Name(), "-nocontrols")
			out, _ := cmd.CombinedOutput()
			mu.Lock()
			defer mu.Unlock()
			res.Total++
			res.Names = append(res.Names, name)
			if strings.Contains(string(out), errStaleVariant.Error()) {
				res.Stale++
				return
			}
			b, err := os.ReadFile(tmp.Name())
			var obls []*Obligation
			if err != nil || json.Unmarshal(b, &obls) != nil {
				res.Missed = append(res.Missed, fmt.Sprintf("%s: no result (mutant does not type-check?): %s", name, firstLine(string(out))))
				return
			}
			want := map[string]bool{}
			for _, r := range expect[name].Detected[prop] {
				want[r] = true
			}
			for _, o := range obls {
				if o.Status == "violation" && want[o.Rule] {
					res.Detected++
					return
				}
			}
			res.Missed = append(res.Missed, fmt.Sprintf("%s: none of the rules %v reports it any more", name, expect[name].Detected[prop]))
		}()
	}
	wg.Wait()
	// the other direction: behaviour-preserving refactorings (/verif/benign) must not be reported
	bdirs, _ := filepath.Glob(filepath.Join(verifDir(), "benign", "*", "patch.diff"))
	sort.Strings(bdirs)
	for _, bp := range bdirs {
		bp := bp
		wg.Add(1)
		sem <- struct{}{}
		go func() {
			defer wg.Done()
			defer func() { <-sem }()
			name := filepath.Base(filepath.Dir(bp))
			cmd := exec.Command(exe, "-prop", prop, "-tier", "quick", "-repo", *flagRepo, "-verif", verifDir(), "-overlaypatch", bp, "-nocontrols")
			out, _ := cmd.CombinedOutput()
			mu.Lock()
			defer mu.Unlock()
			res.BenignTotal++
			if strings.Contains(string(out), errStaleVariant.Error()) {
				res.BenignStale++
				return
			}
			// a refactoring may move the construct of an OPEN known finding (a genuine, recorded defect) to a new site:
			// the defect is then rightly reported under its new name; its meta.json names the rule
			var meta struct {
				Moves []string `json:"moves_known_finding"`
			}
			if b, err := os.ReadFile(filepath.Join(filepath.Dir(bp), "meta.json")); err == nil {
				json.Unmarshal(b, &meta)
			}
			for _, l := range strings.Split(string(out), "\n") {
				moved := false
				for _, r := range meta.Moves {
					if strings.Contains(l, "rule="+r+" ") {
						moved = true
					}
				}
				if moved {
					continue
				}
				if strings.HasPrefix(l, "VIOLATION") || strings.HasPrefix(l, "BROKEN") {
					if len(l) > 220 {
						l = l[:220]
					}
					res.Missed = append(res.Missed, fmt.Sprintf("false alarm on the behaviour-preserving refactoring %s: %s", name, l))
					return
				}
			}
			res.BenignSilent++
		}()
	}
	wg.Wait()
	sort.Strings(res.Names)
	sort.Strings(res.Missed)
	return res
}

func firstLine(s string) string {
	for _, l := range strings.Split(s, "\n") {
		if strings.HasPrefix(l, "BROKEN") {
			return l
		}
	}
	if i := strings.IndexByte(s, '\n'); i >= 0 {
		return s[:i]
	}
	return s
}

func writeEvidence(path, prop string, rep *Report, rules []*Rule, audit *AuditResult, viol int, wall float64) error {
	st := rep.stats()
	distinct := map[string]bool{}
	for _, o := range rep.Obls {
		if o.NonTrivial {
			distinct[o.Rule+"|"+o.Construct] = true
		}
	}
	// samples: up to two obligations per rule, non-trivial first
	var samples []any
	perRule := map[string]int{}
	for pass := 0; pass < 2; pass++ {
		for _, o := range rep.Obls {
			if (pass == 0) != o.NonTrivial {
				continue
			}
			if perRule[o.Rule] >= 2 {
				continue
			}
			perRule[o.Rule]++
			samples = append(samples, o)
		}
	}
	var ruleDocs []string
	for _, r := range rules {
		ruleDocs = append(ruleDocs, r.ID+": "+r.Doc)
	}
	functions := 0
	for short := range rep.Ctx.Pkgs {
		functions += len(rep.Ctx.Decls(short))
	}
	pkgs := []string{}
	for short := range rep.Ctx.Pkgs {
		pkgs = append(pkgs, short)
	}
	sort.Strings(pkgs)
	cov := map[string]any{
		"explanation": "Static analysis of /repo's current source (typed AST, go/cfg, go/ssa); no go-cty code is executed. " +
			"Decides only the structural clauses listed under rules; each is a necessary condition of the property, not the behaviour itself. The rules examine every package; a violation raises this property's alarm when the construct lies in one of the property's anchor files (obligations elsewhere are listed with status info and alarm under the properties that anchor their file). " + propNotDecided[prop],
		"obligations":         st.total,
		"discharged":          st.discharged + st.known,
		"assumed":             st.assumed,
		"known_findings":      st.known,
		"evaluations":         st.total,
		"distinct_nontrivial": len(distinct),
		"rule":                "one obligation per (rule, construct key); non-trivial = the discharge needed a dominating guard, traced alias, matched sibling or covered dispatch (counted by the engine)",
		"samples":             samples,
		"checker_cmd":         strings.Join(os.Args, " "),
		"trusted_base":        []string{"go/types type checker", "golang.org/x/tools v0.29.0 go/packages, go/cfg, go/ssa", "frozen tables in the checker keyed by symbol (each with a reason)", "third-party libraries and reflect behave as documented"},
		"packages":            pkgs,
		"functions_analysed":  functions,
		"rules":               rep.RuleStats,
		"rule_docs":           ruleDocs,
		"exhaustive":          false,
	}
	if audit != nil {
		cov["sensitivity_audit"] = audit
		cov["archs"] = []string{"amd64", "386"}
	}
	if len(rep.BrokenMsgs) > 0 {
		cov["broken"] = rep.BrokenMsgs
	}
	ev := map[string]any{
		"property_id": prop,
		"tier":        *flagTier,
		"seed":        *flagSeed,
		"level":       "other",
		"coverage":    cov,
		"assumptions": []string{
			"sites whose origin the analysis cannot resolve are recorded as 'assumed' and not reported",
			"the VTA/CHA call graph and go/cfg are sound for this module",
		},
		"wall_s":     wall,
		"violations": viol,
	}
	b, err := json.MarshalIndent(ev, "", " ")
	if err != nil {
		return err
	}
	os.MkdirAll(filepath.Dir(path), 0o755)
	return os.WriteFile(path, b, 0o644)
}

// propNotDecided is appended to the explanation: what the check does not decide.
var propNotDecided = map[string]string{}

// loadNotDecided fills propNotDecided from the level_note of each check in MANIFEST.json (the
// "Not decided: …" sentence is part of the claim and is repeated in the evidence).
func loadNotDecided(verif string) {
	b, err := os.ReadFile(filepath.Join(verif, "MANIFEST.json"))
	if err != nil {
		return
	}
	var m struct {
		Checks []struct {
			PropertyID string `json:"property_id"`
			LevelNote  string `json:"level_note"`
		} `json:"checks"`
	}
	if json.Unmarshal(b, &m) != nil {
		return
	}
	for _, c := range m.Checks {
		note := c.LevelNote
		if i := strings.Index(note, "Trusted:"); i > 0 {
			note = note[:i]
		}
		propNotDecided[c.PropertyID] = strings.TrimSpace(note)
	}
}
