package main

import (
	"encoding/json"
	"fmt"
	"math/rand"
	"os"
	"os/exec"
	"path/filepath"
	"sort"
	"strings"
	"sync"
)

type AuditResult struct {
	Total    int      `json:"variants_total"`
	Detected int      `json:"variants_detected"`
	Stale    int      `json:"variants_stale"`
	Missed   []string `json:"variants_missed"`
	Names    []string `json:"variants"`
}

// runAudit applies each single-edit variant registered for this property through
// an in-memory overlay (one ctylint process per variant) and requires the named
// rule to report the named construct. It tests the checker, not /repo.
func runAudit(prop string, rules []*Rule) *AuditResult {
	res := &AuditResult{}
	dir := filepath.Join(verifDir(), "ctylint", "variants")
	files, _ := filepath.Glob(filepath.Join(dir, "*.json"))
	sort.Strings(files)
	var mine []string
	for _, f := range files {
		v, err := readVariant(f)
		if err != nil {
			res.Missed = append(res.Missed, filepath.Base(f)+": unreadable: "+err.Error())
			continue
		}
		if v.Prop == prop {
			mine = append(mine, f)
		}
	}
	rand.New(rand.NewSource(int64(*flagSeed))).Shuffle(len(mine), func(i, j int) { mine[i], mine[j] = mine[j], mine[i] })
	exe, err := os.Executable()
	if err != nil {
		res.Missed = append(res.Missed, "cannot locate own executable")
		return res
	}
	var mu sync.Mutex
	sem := make(chan struct{}, 6)
	var wg sync.WaitGroup
	for _, f := range mine {
		f := f
		wg.Add(1)
		sem <- struct{}{}
		go func() {
			defer wg.Done()
			defer func() { <-sem }()
			v, _ := readVariant(f)
			name := strings.TrimSuffix(filepath.Base(f), ".json")
			tmp, _ := os.CreateTemp("", "ctylint-audit-*.json")
			tmp.Close()
			defer os.Remove(tmp.Name())
			cmd := exec.Command(exe, "-prop", prop, "-tier", "quick", "-repo", *flagRepo, "-verif", verifDir(), "-overlay", f, "-json", tmp.Name(), "-nocontrols")
			out, _ := cmd.CombinedOutput()
			mu.Lock()
			defer mu.Unlock()
			res.Total++
			res.Names = append(res.Names, name)
			if strings.Contains(string(out), errStaleVariant.Error()) {
				res.Stale++
				return
			}
			b, err := os.ReadFile(tmp.Name())
			var obls []*Obligation
			if err != nil || json.Unmarshal(b, &obls) != nil {
				res.Missed = append(res.Missed, fmt.Sprintf("%s: no result (variant does not type-check?): %s", name, firstLine(string(out))))
				return
			}
			for _, o := range obls {
				if o.Status == "violation" && o.Rule == v.Rule && strings.Contains(o.Construct, v.Construct) {
					res.Detected++
					return
				}
			}
			res.Missed = append(res.Missed, fmt.Sprintf("%s: rule %s did not report %q", name, v.Rule, v.Construct))
		}()
	}
	wg.Wait()
	sort.Strings(res.Names)
	sort.Strings(res.Missed)
	return res
}

func firstLine(s string) string {
	for _, l := range strings.Split(s, "\n") {
		if strings.HasPrefix(l, "BROKEN") {
			return l
		}
	}
	if i := strings.IndexByte(s, '\n'); i >= 0 {
		return s[:i]
	}
	return s
}

func writeEvidence(path, prop string, rep *Report, rules []*Rule, audit *AuditResult, viol int, wall float64) error {
	st := rep.stats()
	distinct := map[string]bool{}
	for _, o := range rep.Obls {
		if o.NonTrivial {
			distinct[o.Rule+"|"+o.Construct] = true
		}
	}
	// samples: up to two obligations per rule, non-trivial first
	var samples []any
	perRule := map[string]int{}
	for pass := 0; pass < 2; pass++ {
		for _, o := range rep.Obls {
			if (pass == 0) != o.NonTrivial {
				continue
			}
			if perRule[o.Rule] >= 2 {
				continue
			}
			perRule[o.Rule]++
			samples = append(samples, o)
		}
	}
	var ruleDocs []string
	for _, r := range rules {
		ruleDocs = append(ruleDocs, r.ID+": "+r.Doc)
	}
	functions := 0
	for short := range rep.Ctx.Pkgs {
		functions += len(rep.Ctx.Decls(short))
	}
	pkgs := []string{}
	for short := range rep.Ctx.Pkgs {
		pkgs = append(pkgs, short)
	}
	sort.Strings(pkgs)
	cov := map[string]any{
		"explanation": "Static analysis of /repo's current source (typed AST, go/cfg, go/ssa); no go-cty code is executed. " +
			"Decides only the structural clauses listed under rules; each is a necessary condition of the property, not the behaviour itself. " + propNotDecided[prop],
		"obligations":         st.total,
		"discharged":          st.discharged + st.known,
		"assumed":             st.assumed,
		"known_findings":      st.known,
		"evaluations":         st.total,
		"distinct_nontrivial": len(distinct),
		"rule":                "one obligation per (rule, construct key); non-trivial = the discharge needed a dominating guard, traced alias, matched sibling or covered dispatch (counted by the engine)",
		"samples":             samples,
		"checker_cmd":         strings.Join(os.Args, " "),
		"trusted_base":        []string{"go/types type checker", "golang.org/x/tools v0.29.0 go/packages, go/cfg, go/ssa", "frozen tables in the checker keyed by symbol (each with a reason)", "third-party libraries and reflect behave as documented"},
		"packages":            pkgs,
		"functions_analysed":  functions,
		"rules":               rep.RuleStats,
		"rule_docs":           ruleDocs,
		"exhaustive":          false,
	}
	if audit != nil {
		cov["sensitivity_audit"] = audit
		cov["archs"] = []string{"amd64", "386"}
	}
	if len(rep.BrokenMsgs) > 0 {
		cov["broken"] = rep.BrokenMsgs
	}
	ev := map[string]any{
		"property_id": prop,
		"tier":        *flagTier,
		"seed":        *flagSeed,
		"level":       "other",
		"coverage":    cov,
		"assumptions": []string{
			"sites whose origin the analysis cannot resolve are recorded as 'assumed' and not reported",
			"the VTA/CHA call graph and go/cfg are sound for this module",
		},
		"wall_s":     wall,
		"violations": viol,
	}
	b, err := json.MarshalIndent(ev, "", " ")
	if err != nil {
		return err
	}
	os.MkdirAll(filepath.Dir(path), 0o755)
	return os.WriteFile(path, b, 0o644)
}

// propNotDecided is appended to the explanation: what the check does not decide.
var propNotDecided = map[string]string{}
