package main

import (
	"fmt"
	"go/ast"
	"go/token"
	"go/types"
	"sort"
	"strings"
)

// Spec-driven typestate (GUARD) for the callbacks of function.Spec literals.
//
// The Parameter literal of a Spec says which states may arrive in args[i]:
//   Impl:  unknown only if AllowUnknown, null only if AllowNull, marks (at any depth) only if AllowMarked
//   Type:  unknown always (type checking works on placeholders), null / marks as for Impl
// Elements of a collection argument may always be unknown and null (the framework only looks at
// the top level), and marked only if AllowMarked. Every call of a partial accessor (REQ table) on
// an args-derived subject must have its precondition established by guards on every path.

type paramInfo struct {
	Name                                                   string
	TypeExpr                                               ast.Expr
	AllowNull, AllowUnknown, AllowDynamicType, AllowMarked bool
	Pos                                                    token.Pos
}

type specInfo struct {
	Name     string
	Pkg      string
	Lit      *ast.CompositeLit
	Params   []*paramInfo
	VarParam *paramInfo
	TypeCB   ast.Expr
	ImplCB   ast.Expr
	Refine   ast.Expr
}

func boolField(info *types.Info, e ast.Expr) bool {
	if id, ok := ast.Unparen(e).(*ast.Ident); ok {
		if c, ok := info.Uses[id].(*types.Const); ok {
			return c.Val().String() == "true"
		}
	}
	return false
}

func parseParam(info *types.Info, lit *ast.CompositeLit) *paramInfo {
	p := &paramInfo{Pos: lit.Pos()}
	for _, el := range lit.Elts {
		kv, ok := el.(*ast.KeyValueExpr)
		if !ok {
			continue
		}
		k, _ := kv.Key.(*ast.Ident)
		if k == nil {
			continue
		}
		switch k.Name {
		case "Name":
			if bl, ok := kv.Value.(*ast.BasicLit); ok {
				p.Name = strings.Trim(bl.Value, "\"`")
			}
		case "Type":
			p.TypeExpr = kv.Value
		case "AllowNull":
			p.AllowNull = boolField(info, kv.Value)
		case "AllowUnknown":
			p.AllowUnknown = boolField(info, kv.Value)
		case "AllowDynamicType":
			p.AllowDynamicType = boolField(info, kv.Value)
		case "AllowMarked":
			p.AllowMarked = boolField(info, kv.Value)
		}
	}
	return p
}

// findSpecs lists the function.Spec composite literals of a package.
func findSpecs(c *Ctx, short string) []*specInfo {
	pkg := c.Pkgs[short]
	info := pkg.TypesInfo
	var out []*specInfo
	for _, f := range pkg.Syntax {
		var stack []ast.Node
		ast.Inspect(f, func(n ast.Node) bool {
			if n == nil {
				stack = stack[:len(stack)-1]
				return true
			}
			stack = append(stack, n)
			lit, ok := n.(*ast.CompositeLit)
			if !ok || namedType(info.TypeOf(lit)) != "cty/function.Spec" {
				return true
			}
			s := &specInfo{Lit: lit, Pkg: short}
			for i := len(stack) - 1; i >= 0 && s.Name == ""; i-- {
				switch x := stack[i].(type) {
				case *ast.ValueSpec:
					if len(x.Names) > 0 {
						s.Name = x.Names[0].Name
					}
				case *ast.FuncDecl:
					s.Name = x.Name.Name
				}
			}
			if s.Name == "" {
				s.Name = "spec@" + c.PosStr(lit.Pos())
			}
			for _, el := range lit.Elts {
				kv, ok := el.(*ast.KeyValueExpr)
				if !ok {
					continue
				}
				k, _ := kv.Key.(*ast.Ident)
				if k == nil {
					continue
				}
				switch k.Name {
				case "Params":
					if pl, ok := kv.Value.(*ast.CompositeLit); ok {
						for _, pe := range pl.Elts {
							if pc, ok := pe.(*ast.CompositeLit); ok {
								s.Params = append(s.Params, parseParam(info, pc))
							}
						}
					}
				case "VarParam":
					v := ast.Unparen(kv.Value)
					if u, ok := v.(*ast.UnaryExpr); ok {
						v = u.X
					}
					if pc, ok := v.(*ast.CompositeLit); ok {
						s.VarParam = parseParam(info, pc)
					}
				case "Type":
					s.TypeCB = kv.Value
				case "Impl":
					s.ImplCB = kv.Value
				case "RefineResult":
					s.Refine = kv.Value
				}
			}
			out = append(out, s)
			return true
		})
	}
	sort.Slice(out, func(i, j int) bool { return out[i].Name < out[j].Name })
	return out
}

func (s *specInfo) param(i int) *paramInfo {
	if i < len(s.Params) {
		return s.Params[i]
	}
	return s.VarParam
}

func (s *specInfo) covered(from int) []*paramInfo {
	var out []*paramInfo
	for i := from; i < len(s.Params); i++ {
		out = append(out, s.Params[i])
	}
	if s.VarParam != nil {
		out = append(out, s.VarParam)
	}
	return out
}

// guarantees: the facts the framework establishes for an argument of parameter p.
func guarantees(p *paramInfo, subj string, impl bool) []Fact {
	var out []Fact
	if p == nil {
		return nil
	}
	if impl && !p.AllowUnknown {
		out = append(out, Fact{"known", subj})
	}
	if !p.AllowNull {
		out = append(out, Fact{"notnull", subj})
	}
	if !p.AllowMarked {
		out = append(out, Fact{"unmarked", subj}, Fact{"deepunmarked", subj})
	}
	return out
}

func weakest(ps []*paramInfo, subj string, impl bool) []Fact {
	if len(ps) == 0 {
		return nil
	}
	out := guarantees(ps[0], subj, impl)
	for _, p := range ps[1:] {
		out = intersectFacts(out, guarantees(p, subj, impl))
	}
	return out
}

// resolveCallback returns the body and type of a callback expression (function literal or
// a named function of the same package).
func resolveCallback(c *Ctx, short string, e ast.Expr) (*ast.BlockStmt, *ast.FuncType, string) {
	info := c.Info(short)
	switch x := ast.Unparen(e).(type) {
	case *ast.FuncLit:
		return x.Body, x.Type, "literal"
	case *ast.Ident:
		if f, ok := info.Uses[x].(*types.Func); ok {
			if fd := c.Decl(short, f.Name()); fd != nil {
				return fd.Body, fd.Type, f.Name()
			}
		}
	}
	return nil, nil, ""
}

// ---------------------------------------------------------------------------
// REQ: preconditions of the partial accessors of cty.Value.

type accReq struct {
	Known, NotNull, Unmarked bool
	StructuralExempt         bool // known/notnull not needed for tuple- and object-typed receivers
	Why                      string
}

var valueREQ = map[string]accReq{
	"cty.Value.AsString":          {true, true, true, false, "panics on unknown, null or marked strings"},
	"cty.Value.AsBigFloat":        {true, true, true, false, "panics on unknown, null or marked numbers"},
	"cty.Value.True":              {true, false, true, false, "asserts the payload of Equals(True): panics on unknown; panics on marked"},
	"cty.Value.False":             {true, false, true, false, "negation of True()"},
	"cty.Value.LengthInt":         {true, true, true, true, "panics on unknown or null collections and on marked values"},
	"cty.Value.ElementIterator":   {true, true, true, false, "panics on unknown, null or marked values"},
	"cty.Value.ForEachElement":    {true, true, true, false, "uses ElementIterator"},
	"cty.Value.AsValueSlice":      {true, true, true, true, "uses LengthInt/ElementIterator"},
	"cty.Value.AsValueMap":        {true, true, true, true, "uses LengthInt/ElementIterator"},
	"cty.Value.AsValueSet":        {true, true, true, false, "uses ElementIterator"},
	"cty.Value.EncapsulatedValue": {false, false, true, false, "asserts unmarked"},
}

// deriveReq re-derives a lower bound of an accessor's preconditions from its own
// leading statements, so that the table cannot silently drift from the source.
func deriveReq(c *Ctx, key string, depth int) (known, notnull, unmarked bool) {
	name := strings.TrimPrefix(key, "cty.")
	fd := c.Decl("cty", name)
	if fd == nil || fd.Body == nil || depth > 3 {
		return
	}
	info := c.Info("cty")
	recv := recvObj(info, fd)
	for _, st := range fd.Body.List {
		switch s := st.(type) {
		case *ast.ExprStmt:
			if call, ok := s.X.(*ast.CallExpr); ok && isCall(info, call, "cty.Value.assertUnmarked") {
				unmarked = true
			}
		case *ast.IfStmt:
			exits := false
			for _, b := range s.Body.List {
				if es, ok := b.(*ast.ExprStmt); ok {
					if call, ok := es.X.(*ast.CallExpr); ok && isBuiltin(info, call, "panic") {
						exits = true
					}
				}
			}
			if !exits {
				continue
			}
			cond := ast.Unparen(s.Cond)
			neg := false
			if u, ok := cond.(*ast.UnaryExpr); ok && u.Op == token.NOT {
				neg, cond = true, ast.Unparen(u.X)
			}
			if call, ok := cond.(*ast.CallExpr); ok {
				if se, ok := call.Fun.(*ast.SelectorExpr); ok && objOf(info, se.X) == recv {
					switch funcKey(callee(info, call)) {
					case "cty.Value.IsKnown":
						if neg {
							known = true
						}
					case "cty.Value.IsNull":
						if !neg {
							notnull = true
						}
					}
				}
			}
		}
	}
	// unconditional delegation to another accessor on the receiver
	ast.Inspect(fd.Body, func(n ast.Node) bool {
		if call, ok := n.(*ast.CallExpr); ok {
			if se, ok := call.Fun.(*ast.SelectorExpr); ok && objOf(info, se.X) == recv {
				k := funcKey(callee(info, call))
				if _, ok := valueREQ[k]; ok && k != key {
					_, _, u := deriveReq(c, k, depth+1)
					unmarked = unmarked || u
				}
			}
		}
		return true
	})
	return
}

// ---------------------------------------------------------------------------

type stdObl struct {
	Bit       string // "known" | "notnull" | "unmarked"
	Status    string // discharged | violation | assumed
	Construct string
	Pos       token.Pos
	Detail    string
	Elem      bool
	Mode      string // Impl | Type
}

type stdlibResult struct {
	Specs     []*specInfo
	Obls      []stdObl
	Callbacks int
}

func (c *Ctx) stdlib() *stdlibResult {
	if c.stdlibRes != nil {
		return c.stdlibRes
	}
	res := &stdlibResult{}
	for _, short := range []string{"cty/function/stdlib"} {
		for _, s := range findSpecs(c, short) {
			res.Specs = append(res.Specs, s)
			for _, cb := range []struct {
				e    ast.Expr
				mode string
			}{{s.TypeCB, "Type"}, {s.ImplCB, "Impl"}} {
				if cb.e == nil {
					continue
				}
				body, ft, _ := resolveCallback(c, short, cb.e)
				if body == nil || ft == nil || len(ft.Params.List) == 0 || len(ft.Params.List[0].Names) == 0 {
					continue
				}
				res.Callbacks++
				a := &cbAnalysis{c: c, info: c.Info(short), spec: s, mode: cb.mode, res: res, short: short}
				argsObj := a.info.Defs[ft.Params.List[0].Names[0]]
				a.run(body, argsObj, nil, nil, s.Name+"."+cb.mode)
			}
		}
	}
	c.stdlibRes = res
	return res
}

type cbAnalysis struct {
	c     *Ctx
	info  *types.Info
	spec  *specInfo
	mode  string
	res   *stdlibResult
	short string
}

type elemLink struct{ elem, cont string }

// run analyses one body. argsObj may be nil (nested callback); extraEntry / extraRooted carry
// facts and rooted subjects from the enclosing function.
func (a *cbAnalysis) run(body *ast.BlockStmt, argsObj types.Object, extraEntry []Fact, extraRooted map[string]string, where string) {
	info := a.info
	impl := a.mode == "Impl"
	rooted := map[string]string{}           // subject key → description
	rootParams := map[string][]*paramInfo{} // directly rooted subject → the parameters it can stand for
	for k, v := range extraRooted {
		rooted[k] = v
	}
	var entry []Fact
	entry = append(entry, extraEntry...)
	var invariants []Fact
	rangeAsserts := map[types.Object][]Fact{}
	elemOfRange := map[types.Object]ast.Expr{} // range value var → container expr
	structural := map[string]bool{}            // subject keys whose declared type is tuple/object

	sliceAlias := map[types.Object]int{} // rest := args[n:]
	if argsObj != nil {
		inspectNoLit(body, func(n ast.Node) bool {
			as, ok := n.(*ast.AssignStmt)
			if !ok || as.Tok != token.DEFINE || len(as.Lhs) != 1 || len(as.Rhs) != 1 {
				return true
			}
			if sl, ok := ast.Unparen(as.Rhs[0]).(*ast.SliceExpr); ok && objOf(info, sl.X) == argsObj && sl.High == nil {
				from := 0
				if sl.Low != nil {
					n, ok := constInt(info, sl.Low)
					if !ok {
						return true
					}
					from = int(n)
				}
				if o := objOf(info, as.Lhs[0]); o != nil && countAssigns(info, body, o) == 0 {
					sliceAlias[o] = from
				}
			}
			return true
		})
	}
	isArgs := func(e ast.Expr) (bool, int) { // args or args[n:]
		e = ast.Unparen(e)
		if argsObj == nil {
			return false, 0
		}
		if objOf(info, e) == argsObj {
			return true, 0
		}
		if o := objOf(info, e); o != nil {
			if from, ok := sliceAlias[o]; ok {
				return true, from
			}
		}
		if sl, ok := e.(*ast.SliceExpr); ok && objOf(info, sl.X) == argsObj && sl.High == nil {
			if sl.Low == nil {
				return true, 0
			}
			if n, ok := constInt(info, sl.Low); ok {
				return true, int(n)
			}
			return true, 0
		}
		return false, 0
	}
	declKind := func(p *paramInfo) string {
		if p == nil || p.TypeExpr == nil {
			return ""
		}
		if call, ok := ast.Unparen(p.TypeExpr).(*ast.CallExpr); ok {
			switch funcKey(callee(info, call)) {
			case "cty.Tuple":
				return "Tuple"
			case "cty.Object":
				return "Object"
			}
		}
		return ""
	}
	// args reassigned (args = args[1:]): later subjects cannot be attributed
	argsReassigned := false
	if argsObj != nil && countAssigns(info, body, argsObj) > 0 {
		argsReassigned = true
	}

	// pass 1: subjects rooted directly at args
	inspectNoLit(body, func(n ast.Node) bool {
		switch x := n.(type) {
		case *ast.IndexExpr:
			if o := objOf(info, x.X); o != nil && argsObj != nil && !argsReassigned {
				if from, ok := sliceAlias[o]; ok {
					if k := subjKey(info, x); k != "" {
						if _, seen := rooted[k]; !seen {
							if ci, ok := constInt(info, x.Index); ok && a.spec.param(int(ci)+from) != nil {
								p := a.spec.param(int(ci) + from)
								rooted[k] = fmt.Sprintf("args[%d] (parameter %q)", int(ci)+from, p.Name)
								rootParams[k] = []*paramInfo{p}
								entry = append(entry, guarantees(p, k, impl)...)
							} else {
								rooted[k] = "args[" + exprStr(x.Index) + "+…] (any parameter)"
								rootParams[k] = a.spec.covered(from)
								invariants = append(invariants, weakest(a.spec.covered(from), k, impl)...)
							}
						}
					}
					return true
				}
			}
			if argsObj != nil && objOf(info, x.X) == argsObj && !argsReassigned {
				k := subjKey(info, x)
				if k == "" {
					return true
				}
				if ci, ok := constInt(info, x.Index); ok {
					p := a.spec.param(int(ci))
					if p == nil {
						return true
					}
					if _, seen := rooted[k]; !seen {
						rooted[k] = fmt.Sprintf("args[%d] (parameter %q)", ci, p.Name)
						rootParams[k] = []*paramInfo{p}
						entry = append(entry, guarantees(p, k, impl)...)
						if dk := declKind(p); dk != "" {
							structural[k] = true
						}
					}
				} else if _, seen := rooted[k]; !seen {
					rooted[k] = "args[" + exprStr(x.Index) + "] (any parameter)"
					rootParams[k] = a.spec.covered(0)
					invariants = append(invariants, weakest(a.spec.covered(0), k, impl)...)
				}
			}
		case *ast.RangeStmt:
			if ok, from := isArgs(x.X); ok && !argsReassigned && x.Value != nil {
				if o := objOf(info, x.Value); o != nil {
					k := objKey(o)
					rooted[k] = "element of args (any parameter)"
					rootParams[k] = a.spec.covered(from)
					rangeAsserts[o] = weakest(a.spec.covered(from), k, impl)
				}
			}
		}
		return true
	})
	if len(rooted) == 0 {
		return
	}

	// universal-guard idiom: an earlier loop over the same slice of args whose body exits the
	// function unless PRED(x) holds (and never breaks) establishes PRED for every element; later
	// loops over the same slice inherit it.
	{
		base0 := valueFacts(info, body)
		fc := a.c.CFG(body, info)
		type uni struct {
			loop  *ast.RangeStmt
			from  int
			preds []string
		}
		var unis []uni
		inspectNoLit(body, func(n ast.Node) bool {
			rs, ok := n.(*ast.RangeStmt)
			if !ok || rs.Value == nil {
				return true
			}
			okArgs, from := isArgs(rs.X)
			if !okArgs || argsReassigned {
				return true
			}
			vo := objOf(info, rs.Value)
			if vo == nil || rangeAsserts[vo] == nil && rooted[objKey(vo)] == "" {
				return true
			}
			hasBreak := false
			ast.Inspect(rs.Body, func(x ast.Node) bool {
				if b, ok := x.(*ast.BranchStmt); ok && (b.Tok == token.BREAK || b.Tok == token.GOTO) {
					hasBreak = true
				}
				return true
			})
			if hasBreak {
				return true
			}
			var preds []string
			for _, st := range rs.Body.List {
				ifs, ok := st.(*ast.IfStmt)
				if !ok || ifs.Else != nil || len(ifs.Body.List) == 0 {
					continue
				}
				if _, ok := ifs.Body.List[len(ifs.Body.List)-1].(*ast.ReturnStmt); !ok {
					continue
				}
				for _, ft := range fc.condFacts(base0, ifs.Cond, false) {
					if ft.Subj == objKey(vo) {
						preds = append(preds, ft.Pred)
					}
				}
			}
			if len(preds) > 0 {
				unis = append(unis, uni{rs, from, preds})
			}
			return true
		})
		for _, u := range unis {
			inspectNoLit(body, func(n ast.Node) bool {
				rs, ok := n.(*ast.RangeStmt)
				if !ok || rs == u.loop || rs.Value == nil || rs.Pos() < u.loop.End() {
					return true
				}
				okArgs, from := isArgs(rs.X)
				vo := objOf(info, rs.Value)
				if !okArgs || from < u.from || vo == nil || !fc.Dominates(u.loop.X, rs.X) {
					return true
				}
				if _, ok := rooted[objKey(vo)]; !ok {
					return true
				}
				for _, p := range u.preds {
					rangeAsserts[vo] = append(rangeAsserts[vo], Fact{p, objKey(vo)})
				}
				return true
			})
		}
	}

	// pass 2: aliases and elements, to a fixpoint
	iterOf := map[types.Object]ast.Expr{}      // it := C.ElementIterator()
	opResults := map[types.Object][]ast.Expr{} // x := a.Op(b): operands
	isOpResult := map[string]bool{}
	type assign struct {
		lhs  types.Object
		kind string // alias | unmark | elem | other
		src  ast.Expr
	}
	var assigns []assign
	addAssign := func(l ast.Expr, kind string, src ast.Expr) {
		if o := objOf(info, l); o != nil {
			if id, ok := l.(*ast.Ident); ok && id.Name == "_" {
				return
			}
			assigns = append(assigns, assign{o, kind, src})
		}
	}
	elemCall := func(e ast.Expr) (cont ast.Expr, ok bool) { // C.Index(..) / C.GetAttr(..)
		call, isCall := ast.Unparen(e).(*ast.CallExpr)
		if !isCall {
			return nil, false
		}
		se, isSel := call.Fun.(*ast.SelectorExpr)
		if !isSel {
			return nil, false
		}
		switch funcKey(callee(info, call)) {
		case "cty.Value.Index", "cty.Value.GetAttr":
			return se.X, true
		}
		return nil, false
	}
	inspectNoLit(body, func(n ast.Node) bool {
		switch x := n.(type) {
		case *ast.AssignStmt:
			if len(x.Rhs) == 1 {
				r := ast.Unparen(x.Rhs[0])
				if call, ok := r.(*ast.CallExpr); ok {
					if se, ok := call.Fun.(*ast.SelectorExpr); ok {
						switch funcKey(callee(info, call)) {
						case "cty.Value.Unmark", "cty.Value.UnmarkDeep", "cty.Value.UnmarkDeepWithPaths":
							addAssign(x.Lhs[0], "unmark", se.X)
							return true
						case "cty.Value.ElementIterator":
							if o := objOf(info, x.Lhs[0]); o != nil {
								iterOf[o] = se.X
							}
							return true
						case "cty.ElementIterator.Element":
							if io := objOf(info, se.X); io != nil && iterOf[io] != nil && len(x.Lhs) == 2 {
								addAssign(x.Lhs[1], "elem", iterOf[io])
								addAssign(x.Lhs[0], "key", nil)
							}
							return true
						}
					}
					if cont, ok := elemCall(r); ok && len(x.Lhs) == 1 {
						addAssign(x.Lhs[0], "elem", cont)
						return true
					}
					if ops := opOperands(info, call); ops != nil && len(x.Lhs) == 1 {
						if o := objOf(info, x.Lhs[0]); o != nil {
							opResults[o] = ops
							assigns = append(assigns, assign{o, "opresult", nil})
						}
						return true
					}
				}
				if len(x.Lhs) == 1 && isCtyValue(info.TypeOf(x.Rhs[0])) {
					if subjKey(info, x.Rhs[0]) != "" {
						addAssign(x.Lhs[0], "alias", x.Rhs[0])
					} else {
						addAssign(x.Lhs[0], "other", nil)
					}
					return true
				}
			}
			for _, l := range x.Lhs {
				if isCtyValue(info.TypeOf(l)) {
					addAssign(l, "other", nil)
				}
			}
		case *ast.ValueSpec:
			for i, nm := range x.Names {
				if !isCtyValue(info.TypeOf(nm)) {
					continue
				}
				if i < len(x.Values) && subjKey(info, x.Values[i]) != "" {
					addAssign(nm, "alias", x.Values[i])
				} else {
					addAssign(nm, "other", nil)
				}
			}
		case *ast.ForStmt:
			// for it := C.ElementIterator(); it.Next(); { ... }
			if as, ok := x.Init.(*ast.AssignStmt); ok && len(as.Rhs) == 1 {
				if call, ok := ast.Unparen(as.Rhs[0]).(*ast.CallExpr); ok && isCall(info, call, "cty.Value.ElementIterator") {
					if o := objOf(info, as.Lhs[0]); o != nil {
						iterOf[o] = call.Fun.(*ast.SelectorExpr).X
					}
				}
			}
		case *ast.RangeStmt:
			rx := ast.Unparen(x.X)
			// keysRaw := keys.AsValueSlice(); for _, k := range keysRaw { … }
			if id, ok := rx.(*ast.Ident); ok {
				if o := info.Uses[id]; o != nil {
					if _, idx, rhs := findDefine(info, body, o); rhs != nil && len(rhs) > idx && countAssigns(info, body, o) == 0 {
						rx = ast.Unparen(rhs[idx])
					}
				}
			}
			if call, ok := rx.(*ast.CallExpr); ok && x.Value != nil {
				switch funcKey(callee(info, call)) {
				case "cty.Value.AsValueSlice", "cty.Value.AsValueMap":
					if o := objOf(info, x.Value); o != nil {
						elemOfRange[o] = call.Fun.(*ast.SelectorExpr).X
						assigns = append(assigns, assign{o, "elem", call.Fun.(*ast.SelectorExpr).X})
					}
				}
			}
		}
		return true
	})
	// iterator assignments inside for-init are AssignStmts too: resolve Element() calls collected before iterOf was filled
	inspectNoLit(body, func(n ast.Node) bool {
		x, ok := n.(*ast.AssignStmt)
		if !ok || len(x.Rhs) != 1 || len(x.Lhs) != 2 {
			return true
		}
		if call, ok := ast.Unparen(x.Rhs[0]).(*ast.CallExpr); ok && isCall(info, call, "cty.ElementIterator.Element") {
			if io := objOf(info, call.Fun.(*ast.SelectorExpr).X); io != nil && iterOf[io] != nil {
				already := false
				for _, as := range assigns {
					if as.lhs == objOf(info, x.Lhs[1]) && as.kind == "elem" {
						already = true
					}
				}
				if !already {
					addAssign(x.Lhs[1], "elem", iterOf[io])
					addAssign(x.Lhs[0], "key", nil)
				}
			}
		}
		return true
	})
	byLHS := map[types.Object][]assign{}
	for _, as := range assigns {
		byLHS[as.lhs] = append(byLHS[as.lhs], as)
	}
	// a directly rooted subject (range variable) that is also assigned from something else is not attributable
	for o, list := range byLHS {
		k := objKey(o)
		if _, ok := rooted[k]; !ok {
			continue
		}
		for _, as := range list {
			if as.kind == "other" {
				delete(rooted, k)
				delete(rangeAsserts, o)
			}
		}
	}
	elemLinks := map[string]string{}    // element subject → container subject
	aliasLinks := map[string][]string{} // alias / unmark result → source subjects
	for changed := true; changed; {
		changed = false
		for o, list := range byLHS {
			k := objKey(o)
			if _, done := rooted[k]; done {
				continue
			}
			all := true
			desc := ""
			for _, as := range list {
				switch as.kind {
				case "alias", "unmark":
					sk := subjKey(info, as.src)
					if sk == k {
						continue // x, m := x.Unmark(): derives from itself
					}
					if d, ok := rooted[sk]; ok {
						desc = d
						aliasLinks[k] = append(aliasLinks[k], sk)
						if ps, ok := rootParams[sk]; ok {
							rootParams[k] = ps
						}
					} else {
						all = false
					}
				case "elem":
					sk := subjKey(info, as.src)
					if d, ok := rooted[sk]; ok {
						desc = "element of " + d
						elemLinks[k] = sk
					} else {
						all = false
					}
				case "opresult":
					// the result of an operation method: carries the marks of its operands
					anyRooted := false
					for _, oe := range opResults[o] {
						if sk := subjKey(info, oe); sk != "" {
							if d, ok := rooted[sk]; ok {
								anyRooted = true
								desc = "result of an operation on " + d
								aliasLinks[k] = append(aliasLinks[k], sk)
							}
						}
					}
					if !anyRooted {
						all = false
					} else {
						isOpResult[k] = true
					}
				default:
					all = false
				}
			}
			if all && desc != "" {
				rooted[k] = desc
				changed = true
			}
		}
	}

	// the fact vocabulary, extended with range-variable guarantees and element derivations
	base := valueFacts(info, body)
	elemEffects := func(v, cont string) []Effect {
		return []Effect{
			{ImplyIf: &Fact{"whollyknown", cont}, ImplyThen: &Fact{"known", v}},
			{ImplyIf: &Fact{"whollyknown", cont}, ImplyThen: &Fact{"whollyknown", v}},
			{ImplyIf: &Fact{"deepunmarked", cont}, ImplyThen: &Fact{"unmarked", v}},
			{ImplyIf: &Fact{"deepunmarked", cont}, ImplyThen: &Fact{"deepunmarked", v}},
		}
	}
	spec := &FactSpec{Atom: base.Atom, Invariants: invariants}
	spec.Effects = func(n ast.Node) []Effect {
		out := base.Effects(n)
		switch x := n.(type) {
		case *ast.Ident:
			if o := objOf(info, x); o != nil {
				for _, f := range rangeAsserts[o] {
					f := f
					out = append(out, Effect{Assert: &f})
				}
				if cont, ok := elemOfRange[o]; ok {
					if ck := subjKey(info, cont); ck != "" {
						out = append(out, elemEffects(objKey(o), ck)...)
					}
				}
			}
		case *ast.AssignStmt:
			if len(x.Rhs) != 1 {
				break
			}
			r := ast.Unparen(x.Rhs[0])
			if call, ok := r.(*ast.CallExpr); ok {
				if isCall(info, call, "cty.ElementIterator.Element") && len(x.Lhs) == 2 {
					if io := objOf(info, call.Fun.(*ast.SelectorExpr).X); io != nil && iterOf[io] != nil {
						if ck := subjKey(info, iterOf[io]); ck != "" {
							if vk := subjKey(info, x.Lhs[1]); vk != "" {
								out = append(out, elemEffects(vk, ck)...)
							}
						}
						if kk := subjKey(info, x.Lhs[0]); kk != "" {
							out = append(out, Effect{Assert: &Fact{"known", kk}}, Effect{Assert: &Fact{"notnull", kk}}, Effect{Assert: &Fact{"unmarked", kk}})
						}
					}
				}
				if cont, ok := elemCall(r); ok && len(x.Lhs) == 1 {
					if ck, vk := subjKey(info, cont), subjKey(info, x.Lhs[0]); ck != "" && vk != "" {
						out = append(out, elemEffects(vk, ck)...)
					}
				}
				if ops := opOperands(info, call); ops != nil && len(x.Lhs) == 1 {
					if vk := subjKey(info, x.Lhs[0]); vk != "" {
						var oks []string
						for _, oe := range ops {
							if sk := subjKey(info, oe); sk != "" {
								oks = append(oks, sk)
							}
						}
						out = append(out, Effect{Filter: func(sat func(Fact) bool) bool {
							// the result is marked exactly when some operand is
							all := true
							for _, k := range oks {
								if !sat(Fact{"unmarked", k}) {
									all = false
								}
							}
							if all {
								return sat(Fact{"unmarked", vk})
							}
							anyMarked := false
							for _, k := range oks {
								if sat(Fact{"marked", k}) {
									anyMarked = true
								}
							}
							if anyMarked {
								return sat(Fact{"marked", vk})
							}
							return true
						}})
					}
				}
			}
		}
		return out
	}

	fcfg := a.c.CFG(body, info)
	var extra []Fact
	for k := range rooted {
		extra = append(extra, Fact{"known", k}, Fact{"notnull", k}, Fact{"unmarked", k})
	}
	for v, cont := range elemLinks {
		extra = append(extra, Fact{"whollyknown", cont}, Fact{"deepunmarked", cont}, Fact{"deepunmarked", v})
	}
	sort.Slice(extra, func(i, j int) bool { return extra[i].Subj+extra[i].Pred < extra[j].Subj+extra[j].Pred })
	_ = extra
	focusRuns := map[string]*WorldResult{}
	worldsFor := func(subj string, bit string) *WorldResult {
		if r, ok := focusRuns[subj+"|"+bit]; ok {
			return r
		}
		var dims []string
		switch bit {
		case "known":
			dims = []string{"K", "WK"}
		case "notnull":
			dims = []string{"N", "K"}
		case "unmarked":
			dims = []string{"M", "DM"}
		}
		// the subject, everything it was copied from, and the containers of all of those
		seen := map[string]bool{}
		var focus []string
		var ex []Fact
		var add func(k string)
		add = func(k string) {
			if seen[k] {
				return
			}
			seen[k] = true
			focus = append(focus, k)
			ex = append(ex, Fact{"known", k}, Fact{"notnull", k}, Fact{"unmarked", k})
			for _, src := range aliasLinks[k] {
				add(src)
			}
			if cont := elemLinks[k]; cont != "" {
				ex = append(ex, Fact{"whollyknown", cont}, Fact{"deepunmarked", cont}, Fact{"deepunmarked", k})
				add(cont)
			}
		}
		add(subj)
		r := fcfg.WorldsFocusedDims(spec, ex, entry, focus, dims)
		focusRuns[subj+"|"+bit] = r
		return r
	}

	if argsObj != nil {
		a.typeAccessorKinds(body, rootParams, where)
	}
	// pass 3: check accessor calls; recurse into ForEachElement callbacks
	inspectNoLit(body, func(n ast.Node) bool {
		call, ok := n.(*ast.CallExpr)
		if !ok {
			return true
		}
		se, ok := call.Fun.(*ast.SelectorExpr)
		if !ok {
			return true
		}
		fk := funcKey(callee(info, call))
		req, isAcc := valueREQ[fk]
		if !isAcc {
			return true
		}
		sk := subjKey(info, se.X)
		desc, isRooted := rooted[sk]
		if sk == "" || !isRooted {
			return true
		}
		_, isElem := elemLinks[sk]
		acc := strings.TrimPrefix(fk, "cty.Value.")
		check := func(bit string, need bool, goodFact, badFact Fact) {
			if !need {
				return
			}
			wr := worldsFor(sk, bit)
			construct := fmt.Sprintf("%s.%s/%s(%s)/%s", a.spec.Pkg, where, acc, displaySubj(sk), bit)
			if a.c.IsControl(call.Pos()) {
				construct = "control/" + construct
			}
			holds, reachable := wr.Established(call, goodFact)
			ob := stdObl{Bit: bit, Construct: construct, Pos: call.Pos(), Elem: isElem, Mode: a.mode}
			switch {
			case !reachable:
				ob.Status, ob.Detail = "discharged", "unreachable under the declared parameter contract"
			case holds:
				ob.Status, ob.Detail = "discharged", fmt.Sprintf("%s established for %s on every path (%s)", goodFact.Pred, desc, wr.Describe(call, sk))
			default:
				at, _, _ := factAtom(goodFact)
				if _, tracked := wr.idx[at]; !tracked {
					ob.Status, ob.Detail = "assumed", "state atom not tracked (too many predicates in this function)"
				} else if flag := correlatedFlag(a.c, info, body, call); flag != "" && wr.Possible(call, badFact) {
					ob.Status, ob.Detail = "assumed", fmt.Sprintf("the call is guarded by the exit 'if %s' whose flag is set under a state predicate earlier in the function (universal-flag idiom): correlated state the engine does not model", flag)
				} else if wr.Possible(call, badFact) {
					ob.Status = "violation"
					ob.Detail = fmt.Sprintf("%s() is called on %s which may be %s here (%s) — %s; states reaching the call: %s", acc, desc, badWord(bit), whyAdmitted(a.spec, desc, bit, isElem, a.mode), req.Why, wr.Describe(call, sk))
				} else {
					ob.Status, ob.Detail = "discharged", "bad state excluded"
				}
			}
			a.res.Obls = append(a.res.Obls, ob)
		}
		needKnown, needNotNull := req.Known, req.NotNull
		if req.StructuralExempt && structural[sk] {
			needKnown, needNotNull = false, false
		}
		if isOpResult[sk] {
			// whether an operation result is known is a value question; its marks are those of the operands
			needKnown, needNotNull = false, false
		}
		check("known", needKnown, Fact{"known", sk}, Fact{"unknown", sk})
		check("notnull", needNotNull, Fact{"notnull", sk}, Fact{"null", sk})
		check("unmarked", req.Unmarked, Fact{"unmarked", sk}, Fact{"marked", sk})

		// ForEachElement callback
		if fk == "cty.Value.ForEachElement" && len(call.Args) == 1 {
			if fl, ok := ast.Unparen(call.Args[0]).(*ast.FuncLit); ok && len(fl.Type.Params.List) > 0 {
				var names []*ast.Ident
				for _, f := range fl.Type.Params.List {
					names = append(names, f.Names...)
				}
				if len(names) == 2 {
					ko, vo := info.Defs[names[0]], info.Defs[names[1]]
					if ko != nil && vo != nil {
						var en []Fact
						en = append(en, Fact{"known", objKey(ko)}, Fact{"notnull", objKey(ko)}, Fact{"unmarked", objKey(ko)})
						if h, _ := worldsFor(sk, "known").Established(call, Fact{"whollyknown", sk}); h {
							en = append(en, Fact{"known", objKey(vo)}, Fact{"whollyknown", objKey(vo)})
						}
						if h, _ := worldsFor(sk, "unmarked").Established(call, Fact{"deepunmarked", sk}); h {
							en = append(en, Fact{"unmarked", objKey(vo)}, Fact{"deepunmarked", objKey(vo)})
						}
						a.run(fl.Body, nil, en, map[string]string{objKey(vo): "element of " + desc}, where)
					}
				}
			}
		}
		return true
	})
	// pass 3b: a definite decision read off an operation result by identity — OP(x, …) == cty.True / cty.False. The
	// comparison does not panic on an unknown result, it is simply false, so "not found" / "not equal" is concluded
	// for an operand that is not known yet: the operands must be established known like the receiver of True().
	inspectNoLit(body, func(n ast.Node) bool {
		be, ok := n.(*ast.BinaryExpr)
		if !ok || (be.Op != token.EQL && be.Op != token.NEQ) {
			return true
		}
		var opCall *ast.CallExpr
		for _, pair := range [][2]ast.Expr{{be.X, be.Y}, {be.Y, be.X}} {
			if isPkgVar(info, pair[1], "cty", "True", "False") {
				if cl, ok := ast.Unparen(pair[0]).(*ast.CallExpr); ok && opOperands(info, cl) != nil {
					opCall = cl
				}
			}
		}
		if opCall == nil {
			return true
		}
		acc := strings.TrimPrefix(funcKey(callee(info, opCall)), "cty.Value.")
		for _, oe := range opOperands(info, opCall) {
			sk := subjKey(info, oe)
			desc, isRooted := rooted[sk]
			if sk == "" || !isRooted || isOpResult[sk] {
				continue
			}
			_, isElem := elemLinks[sk]
			wr := worldsFor(sk, "known")
			construct := fmt.Sprintf("%s.%s/%s(%s)==True|False/known", a.spec.Pkg, where, acc, displaySubj(sk))
			if a.c.IsControl(be.Pos()) {
				construct = "control/" + construct
			}
			good, bad := Fact{"known", sk}, Fact{"unknown", sk}
			holds, reachable := wr.Established(be, good)
			ob := stdObl{Bit: "known", Construct: construct, Pos: be.Pos(), Elem: isElem, Mode: a.mode}
			switch {
			case !reachable:
				ob.Status, ob.Detail = "discharged", "unreachable under the declared parameter contract"
			case holds:
				ob.Status, ob.Detail = "discharged", fmt.Sprintf("known established for %s on every path (%s)", desc, wr.Describe(be, sk))
			default:
				at, _, _ := factAtom(good)
				if _, tracked := wr.idx[at]; !tracked {
					ob.Status, ob.Detail = "assumed", "state atom not tracked (too many predicates in this function)"
				} else if flag := correlatedFlag(a.c, info, body, be); flag != "" && wr.Possible(be, bad) {
					ob.Status, ob.Detail = "assumed", fmt.Sprintf("the comparison is guarded by the exit 'if %s' whose flag is set under a state predicate earlier in the function (universal-flag idiom): correlated state the engine does not model", flag)
				} else if wr.Possible(be, bad) {
					ob.Status = "violation"
					ob.Detail = fmt.Sprintf("the result of %s() is compared with cty.True / cty.False by identity while %s may be unknown here (%s): for an unknown operand the result is unknown and the comparison is simply false, so the branch taken concludes 'absent' / 'different' for a value that is not known yet, and a definite answer is returned where only an unknown one is justified; states reaching the comparison: %s", acc, desc, whyAdmitted(a.spec, desc, "known", isElem, a.mode), wr.Describe(be, sk))
				} else {
					ob.Status, ob.Detail = "discharged", "bad state excluded"
				}
			}
			a.res.Obls = append(a.res.Obls, ob)
		}
		return true
	})
}

// declaredKind: the kind a Parameter's Type expression guarantees ("" = any type / not evident).
func declaredKind(info *types.Info, p *paramInfo) string {
	if p == nil || p.TypeExpr == nil {
		return ""
	}
	if k := kindOfTypeExpr(info, p.TypeExpr); k != "" {
		if k == "Dynamic" {
			return ""
		}
		return k
	}
	if call, ok := ast.Unparen(p.TypeExpr).(*ast.CallExpr); ok {
		switch funcKey(callee(info, call)) {
		case "cty.List":
			return "List"
		case "cty.Set":
			return "Set"
		case "cty.Map":
			return "Map"
		case "cty.Tuple":
			return "Tuple"
		case "cty.Object", "cty.ObjectWithOptionalAttrs":
			return "Object"
		}
	}
	return ""
}

// typeAccessorKinds: kind-specific accessors of cty.Type called on the type of an argument.
func (a *cbAnalysis) typeAccessorKinds(body *ast.BlockStmt, rootParams map[string][]*paramInfo, where string) {
	info := a.info
	// type subjects: <rooted value>.ty and single-assignment aliases of it
	tyBase := map[string]string{} // type subject key → rooted value subject
	for k := range rootParams {
		tyBase[k+".ty"] = k
	}
	canon := map[string]string{}
	inspectNoLit(body, func(n ast.Node) bool {
		as, ok := n.(*ast.AssignStmt)
		if !ok || len(as.Lhs) != 1 || len(as.Rhs) != 1 || !isCtyType(info.TypeOf(as.Rhs[0])) {
			return true
		}
		lo := objOf(info, as.Lhs[0])
		from := subjKey(info, as.Rhs[0])
		if lo == nil || from == "" || countAssigns(info, body, lo) > 0 {
			return true
		}
		if _, ok := tyBase[from]; ok {
			canon[objKey(lo)] = from
		}
		return true
	})
	cz := func(k string) string {
		if to, ok := canon[k]; ok {
			return to
		}
		return k
	}
	base := valueFacts(info, body)
	spec := &FactSpec{
		Atom: func(cond ast.Expr, truth bool) []Fact {
			fs := base.Atom(cond, truth)
			for i := range fs {
				fs[i].Subj = cz(fs[i].Subj)
			}
			return fs
		},
		Effects: func(n ast.Node) []Effect {
			var out []Effect
			for _, e := range base.Effects(n) {
				if e.CopyTo != "" {
					e.CopyFrom, e.CopyTo = cz(e.CopyFrom), cz(e.CopyTo)
					if e.CopyFrom == e.CopyTo {
						continue
					}
				}
				out = append(out, e)
			}
			return out
		},
	}
	g := a.c.CFG(body, info)
	runs := map[string]*WorldResult{}
	inspectNoLit(body, func(n ast.Node) bool {
		call, ok := n.(*ast.CallExpr)
		if !ok {
			return true
		}
		fk := funcKey(callee(info, call))
		allowed, isAcc := typeREQ[fk]
		if !isAcc {
			return true
		}
		se, ok := call.Fun.(*ast.SelectorExpr)
		if !ok {
			return true
		}
		tk := cz(subjKey(info, se.X))
		vk, ok := tyBase[tk]
		if !ok {
			return true
		}
		ps := rootParams[vk]
		impl := a.mode == "Impl"
		dynPossible, anyType := false, false
		var decl []string
		for _, p := range ps {
			if p.AllowDynamicType && (!impl || p.AllowUnknown) {
				dynPossible = true
			}
			dk := declaredKind(info, p)
			if dk == "" {
				anyType = true
			} else {
				decl = append(decl, dk)
			}
		}
		acc := strings.TrimPrefix(fk, "cty.Type.")
		construct := fmt.Sprintf("%s.%s/%s(%s)/kind", a.spec.Pkg, where, acc, displaySubj(tk))
		wr, ok := runs[tk]
		if !ok {
			var entry []Fact
			if !dynPossible {
				entry = append(entry, Fact{"kind!=Dynamic", tk})
			}
			wr = g.WorldsFocused(spec, []Fact{{"kind=Dynamic", tk}}, entry, []string{tk})
			runs[tk] = wr
		}
		ws, reach := wr.at(call)
		ob := stdObl{Bit: "kind", Construct: construct, Pos: call.Pos(), Mode: a.mode}
		inAllowed := func(k string) bool {
			for _, x := range expandKind(k) {
				for _, al := range allowed {
					if al == x {
						return true
					}
				}
			}
			return false
		}
		switch {
		case !reach || len(ws) == 0:
			ob.Status, ob.Detail = "discharged", "unreachable under the function's own guards"
		default:
			bad := ""
			for w := range ws {
				if v, tracked := wr.get(w, atomID{"kind=Dynamic", tk}); tracked && v && dynPossible {
					bad = "the dynamic pseudo-type (the parameter is declared AllowDynamicType, so cty.DynamicVal is passed to this callback)"
				}
			}
			if bad == "" && !impl && anyType {
				// a type callback of a parameter declared with the dynamic pseudo-type sees arguments of every type
				for w := range ws {
					some := false
					for _, at := range wr.atoms {
						if at.Subj == tk && strings.HasPrefix(at.Dim, "kind=") {
							if v, _ := wr.get(w, at); v && inAllowed(strings.TrimPrefix(at.Dim, "kind=")) {
								some = true
							}
						}
					}
					if !some {
						bad = "a type outside " + strings.Join(allowed, "/") + " (the parameter accepts any type and no guard on the way narrows it)"
					}
				}
			}
			if bad == "" && len(decl) > 0 && !anyType {
				for _, dk := range decl {
					if !inAllowed(dk) {
						bad = "the declared " + dk + " type"
					}
				}
			}
			if bad != "" {
				ob.Status = "violation"
				ob.Detail = fmt.Sprintf("%s() is defined for %s types only, but the argument's type can be %s here: the callback panics instead of returning an error or a placeholder type", acc, strings.Join(allowed, "/"), bad)
			} else {
				ob.Status, ob.Detail = "discharged", fmt.Sprintf("declared kind(s) %v, dynamic possible: %v; every state reaching the call is in %s", decl, dynPossible, strings.Join(allowed, "/"))
			}
		}
		a.res.Obls = append(a.res.Obls, ob)
		return true
	})
}

func badWord(bit string) string {
	switch bit {
	case "known":
		return "unknown"
	case "notnull":
		return "null"
	}
	return "marked"
}

func whyAdmitted(s *specInfo, desc, bit string, elem bool, mode string) string {
	if elem {
		switch bit {
		case "known":
			return "the framework checks only the top level of an argument: elements may be unknown"
		case "notnull":
			return "AllowNull governs only the argument itself: elements may be null"
		default:
			return "the parameter is declared AllowMarked"
		}
	}
	switch bit {
	case "known":
		if mode == "Type" {
			return "type callbacks receive unknown placeholders by contract"
		}
		return "the parameter is declared AllowUnknown"
	case "notnull":
		return "the parameter is declared AllowNull"
	}
	return "the parameter is declared AllowMarked"
}

func init() {
	register(&Rule{
		ID: "C11.accessor-guards", Prop: "C11", Also: []string{"C13", "C14"}, Floor: 40, Controls: 1,
		Doc: "in every Type/Impl callback of a standard function, each partial accessor (AsString, AsBigFloat, LengthInt, ElementIterator, AsValueSlice, ...) called on an argument admitted as null by its Parameter declaration — or on an element of an argument, which may always be null — is dominated by an IsNull guard (otherwise the call panics inside the callback)",
		Run: func(rr *RuleRun) { runStdlibBit(rr, "notnull") },
	})
	register(&Rule{
		ID: "C12.unknown-guards", Prop: "C12", Also: []string{"C11"}, Floor: 45, Controls: 1,
		Doc: "in every Type callback (which receives unknown placeholders by contract) and in every Impl callback for parameters declared AllowUnknown — and for elements of any argument, which may always be unknown — each known-only accessor is dominated by IsKnown / IsWhollyKnown on the same subject or its container (weakening an argument to unknown must not turn success into a panic)",
		Run: func(rr *RuleRun) { runStdlibBit(rr, "known") },
	})
	register(&Rule{
		ID: "C04.stdlib-mark-tolerance", Prop: "C04", Also: []string{"C11"}, Floor: 30, Controls: 1,
		Doc: "for a parameter declared AllowMarked neither callback calls a mark-intolerant accessor on the argument or on an element of it before Unmark / UnmarkDeep (such an accessor panics only in the marked run, so marking would change the outcome)",
		Run: func(rr *RuleRun) { runStdlibBit(rr, "unmarked") },
	})
	register(&Rule{
		ID: "C11.type-accessor-kinds", Prop: "C11", Also: []string{"C12", "C13", "C14"}, Floor: 15, Controls: 1,
		Doc: "in the callbacks of a standard function a kind-specific accessor of cty.Type (ElementType, AttributeTypes, TupleElementTypes, ...) is called on the type of an argument only where that type is known to be of the right kind: not for cty.DynamicVal when the parameter is declared AllowDynamicType, and in a type callback of an any-type parameter only under a guard that narrows the kind",
		Run: func(rr *RuleRun) { runStdlibBit(rr, "kind") },
	})
	register(&Rule{
		ID: "C11.req-table", Prop: "C11", Also: []string{"C12", "C04", "C13", "C14"}, Floor: 10,
		Doc: "the table of accessor preconditions used by the typestate rules agrees with the accessors' own leading guard-then-panic statements in package cty",
		Run: runReqTable,
	})
}

func runStdlibBit(rr *RuleRun, bit string) {
	res := rr.Ctx.stdlib()
	if len(res.Specs) < 75 {
		rr.Broken(fmt.Sprintf("only %d function.Spec literals found in cty/function/stdlib (81 confirmed by hand)", len(res.Specs)))
	}
	for _, o := range res.Obls {
		if o.Bit != bit {
			continue
		}
		switch o.Status {
		case "discharged":
			rr.OK(o.Construct, o.Pos, o.Detail)
		case "assumed":
			rr.Assumed(o.Construct, o.Pos, o.Detail)
		case "violation":
			rr.Violation(o.Construct, o.Pos, o.Detail)
		}
	}
}

func runReqTable(rr *RuleRun) {
	var keys []string
	for k := range valueREQ {
		keys = append(keys, k)
	}
	sort.Strings(keys)
	for _, k := range keys {
		req := valueREQ[k]
		fd := rr.Ctx.Decl("cty", strings.TrimPrefix(k, "cty."))
		if fd == nil {
			rr.Broken("stale REQ row: " + k + " does not exist")
			continue
		}
		kn, nn, um := deriveReq(rr.Ctx, k, 0)
		var miss []string
		if kn && !req.Known {
			miss = append(miss, "known")
		}
		if nn && !req.NotNull {
			miss = append(miss, "notnull")
		}
		if um && !req.Unmarked {
			miss = append(miss, "unmarked")
		}
		if len(miss) > 0 {
			rr.Broken(fmt.Sprintf("REQ row %s lacks precondition(s) %v that the accessor's own guards state", k, miss))
			continue
		}
		rr.OK(k, fd.Pos(), fmt.Sprintf("table {known:%v notnull:%v unmarked:%v} ⊇ derived {known:%v notnull:%v unmarked:%v}; %s", req.Known, req.NotNull, req.Unmarked, kn, nn, um, req.Why))
	}
}

// correlatedFlag recognises the universal-flag idiom: a boolean local that is set to true
// under a condition calling a state predicate of some value, and tested by an 'if flag { ...exit }'
// that dominates the call. Returns the flag's name, or "".
func correlatedFlag(c *Ctx, info *types.Info, body *ast.BlockStmt, call ast.Node) string {
	fcfg := c.CFG(body, info)
	flags := map[types.Object]bool{}
	inspectNoLit(body, func(n ast.Node) bool {
		ifs, ok := n.(*ast.IfStmt)
		if !ok {
			return true
		}
		hasPred := false
		ast.Inspect(ifs.Cond, func(x ast.Node) bool {
			if ce, ok := x.(*ast.CallExpr); ok {
				switch funcKey(callee(info, ce)) {
				case "cty.Value.IsKnown", "cty.Value.IsWhollyKnown", "cty.Value.IsNull", "cty.Value.IsMarked", "cty.Value.ContainsMarked":
					hasPred = true
				}
			}
			return true
		})
		if !hasPred {
			return true
		}
		for _, st := range ifs.Body.List {
			if as, ok := st.(*ast.AssignStmt); ok && len(as.Lhs) == 1 && len(as.Rhs) == 1 {
				if id, ok := as.Rhs[0].(*ast.Ident); ok && id.Name == "true" {
					if o := objOf(info, as.Lhs[0]); o != nil {
						flags[o] = true
					}
				}
			}
		}
		return true
	})
	if len(flags) == 0 {
		return ""
	}
	name := ""
	inspectNoLit(body, func(n ast.Node) bool {
		ifs, ok := n.(*ast.IfStmt)
		if !ok || name != "" {
			return true
		}
		o := objOf(info, ifs.Cond)
		if o == nil || !flags[o] || len(ifs.Body.List) == 0 {
			return true
		}
		if _, ok := ifs.Body.List[len(ifs.Body.List)-1].(*ast.ReturnStmt); !ok {
			return true
		}
		if fcfg.Dominates(ifs.Cond, call) {
			name = o.Name()
		}
		return true
	})
	return name
}

// opOperands: the operands (receiver first) of a call of an operation method of cty.Value whose
// result carries the union of its operands' marks; nil for anything else.
func opOperands(info *types.Info, call *ast.CallExpr) []ast.Expr {
	f := callee(info, call)
	if f == nil {
		return nil
	}
	k := funcKey(f)
	if !strings.HasPrefix(k, "cty.Value.") {
		return nil
	}
	switch strings.TrimPrefix(k, "cty.Value.") {
	case "Equals", "NotEqual", "Add", "Subtract", "Negate", "Multiply", "Divide", "Modulo", "Absolute", "GetAttr", "Index", "HasIndex",
		"HasElement", "Length", "Not", "And", "Or", "LessThan", "GreaterThan", "LessThanOrEqualTo", "GreaterThanOrEqualTo":
	default:
		return nil
	}
	se, ok := call.Fun.(*ast.SelectorExpr)
	if !ok {
		return nil
	}
	out := []ast.Expr{se.X}
	for _, a := range call.Args {
		if isCtyValue(info.TypeOf(a)) {
			out = append(out, a)
		}
	}
	return out
}
