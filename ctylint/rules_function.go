package main

import (
	"fmt"
	"go/ast"
	"go/token"
	"go/types"
	"sort"
	"strings"
)

func init() {
	register(&Rule{
		ID: "C10.loop-agreement", Prop: "C10", Floor: 2, Also: []string{"C04", "C11", "C12"},
		Doc: "in returnTypeForValues and Call the positional and the variadic argument loops read the same Parameter flags, call the same functions and have the same exits; together they honour AllowMarked, AllowNull, AllowDynamicType and AllowUnknown",
		Run: runLoopAgreement,
	})
	register(&Rule{
		ID: "C10.arg-index", Prop: "C10", Floor: 6,
		Doc: "inside the variadic loop every argument error and every store into the argument copy uses the index adjusted by the number of positional parameters; inside the positional loop the loop index",
		Run: runArgIndex,
	})
	register(&Rule{
		ID: "C10.impl-after-typecheck", Prop: "C10", Floor: 6, Controls: 1,
		Doc: "Spec.Impl is invoked only in Function.Call, after returnTypeForValues on the same args succeeded, after the unknown short-circuit exit and under a recovering defer; Spec.Type only in returnTypeForValues under a recovering defer; Impl receives the rewritten args and the checked return type",
		Run: runImplAfterTypecheck,
	})
	register(&Rule{
		ID: "C10.conformance-assert", Prop: "C10", Floor: 1,
		Doc: "every success return of Call that returns the implementation's result is dominated by TestConformance(expectedType) whose failure exits",
		Run: runConformanceAssert,
	})
	register(&Rule{
		ID: "C10.refine-applied", Prop: "C10", Floor: 2,
		Doc: "the RefineResult defer is registered under no condition other than 'a refiner is declared' and 'not short-circuiting', before any value-producing return, and applies RefineWith under no condition other than non-nil and (known or typed)",
		Run: runRefineApplied,
	})
	register(&Rule{
		ID: "C04.call-marks", Prop: "C04", Floor: 5, Also: []string{"C10", "C11", "C12"},
		Doc: "Function.Call: under !AllowMarked the argument is replaced by the result of UnmarkDeep (never a shallow Unmark) and its marks are appended to the result marks in the same block; every value-producing return passes through WithMarks(resultMarks...); returnTypeForValues deep-unmarks the same parameters before Spec.Type",
		Run: runCallMarks,
	})
}

type argLoop struct {
	fn         *ast.FuncDecl
	loop       *ast.RangeStmt
	variadic   bool
	index      types.Object // loop index variable
	valObj     types.Object // the argument value variable
	paramExprs string
}

// findArgLoops finds the positional loop (range over []Parameter) and the variadic
// loop (range over []cty.Value) of a function in package function.
func findArgLoops(info *types.Info, fd *ast.FuncDecl) (pos, vari *argLoop) {
	ast.Inspect(fd.Body, func(n ast.Node) bool {
		rs, ok := n.(*ast.RangeStmt)
		if !ok {
			return true
		}
		t := info.TypeOf(rs.X)
		sl, ok := t.Underlying().(*types.Slice)
		if !ok {
			return true
		}
		l := &argLoop{fn: fd, loop: rs}
		if rs.Key != nil {
			l.index = objOf(info, rs.Key)
		}
		switch namedType(sl.Elem()) {
		case "cty/function.Parameter":
			if pos == nil {
				pos = l
				// val := posArgs[i]
				ast.Inspect(rs.Body, func(m ast.Node) bool {
					if as, ok := m.(*ast.AssignStmt); ok && as.Tok == token.DEFINE && len(as.Lhs) == 1 && isCtyValue(info.TypeOf(as.Lhs[0])) && l.valObj == nil {
						if _, ok := as.Rhs[0].(*ast.IndexExpr); ok {
							l.valObj = objOf(info, as.Lhs[0])
						}
					}
					return true
				})
			}
		case "cty.Value":
			if vari == nil {
				l.variadic = true
				if rs.Value != nil {
					l.valObj = objOf(info, rs.Value)
				}
				vari = l
			}
		}
		return true
	})
	return
}

type loopSig struct {
	flags   map[string]bool
	calls   map[string]int
	exits   map[string]int
	flagPos map[string]token.Pos
	order   []string // exits in source order (ast.Inspect is pre-order, so this is textual order)
}

// pathCond renders the conjunction of branch conditions under which n executes inside the loop body,
// with the loop's own variables normalised (VAL, SPEC, IDX) so that the two loops can be compared.
func pathCond(c *Ctx, info *types.Info, l *argLoop, n ast.Node) string {
	subst := map[types.Object]string{}
	if l.valObj != nil {
		subst[l.valObj] = "VAL"
	}
	inspectNoLit(l.fn.Body, func(m ast.Node) bool {
		if id, ok := m.(*ast.Ident); ok {
			if o := info.ObjectOf(id); o != nil {
				if v, ok := o.(*types.Var); ok && !v.IsField() {
					switch {
					case namedType(v.Type()) == "cty/function.Parameter":
						subst[o] = "SPEC"
					case types.Identical(v.Type(), types.Typ[types.Int]):
						subst[o] = "IDX"
					}
				}
			}
		}
		return true
	})
	cc := &canonCtx{info: info, subst: subst, locals: map[types.Object]string{}}
	var conds []string
	var child ast.Node = n
	for p := c.Parent(n); p != nil && p != ast.Node(l.loop.Body); child, p = p, c.Parent(p) {
		ifs, ok := p.(*ast.IfStmt)
		if !ok {
			continue
		}
		switch {
		case ast.Node(ifs.Body) == child:
			conds = append(conds, cc.expr(ifs.Cond))
		case ifs.Else == child:
			conds = append(conds, "!("+cc.expr(ifs.Cond)+")")
		}
	}
	sort.Strings(conds)
	return strings.Join(conds, " && ")
}

func loopSignature(info *types.Info, l *argLoop) *loopSig {
	return loopSignatureCtx(nil, info, l)
}

func loopSignatureCtx(c *Ctx, info *types.Info, l *argLoop) *loopSig {
	s := &loopSig{flags: map[string]bool{}, calls: map[string]int{}, exits: map[string]int{}, flagPos: map[string]token.Pos{}}
	under := func(n ast.Node) string {
		if c == nil {
			return ""
		}
		return " under [" + pathCond(c, info, l, n) + "]"
	}
	inspectNoLit(l.loop.Body, func(n ast.Node) bool {
		switch x := n.(type) {
		case *ast.SelectorExpr:
			if strings.HasPrefix(x.Sel.Name, "Allow") && namedType(info.TypeOf(x.X)) == "cty/function.Parameter" {
				s.flags[x.Sel.Name] = true
				s.flagPos[x.Sel.Name] = x.Pos()
			}
		case *ast.CallExpr:
			if f := callee(info, x); f != nil {
				s.calls[funcKey(f)]++
				// a helper of the same package that receives the Parameter: the flags it reads are read for
				// this loop's arguments
				if c != nil && shortPkg(f.Pkg()) == "cty/function" {
					takesParam := false
					for _, a := range x.Args {
						if namedType(info.TypeOf(a)) == "cty/function.Parameter" {
							takesParam = true
						}
					}
					if hd := c.Decl("cty/function", funcDeclKey(f)); takesParam && hd != nil && hd.Body != nil {
						inspectNoLit(hd.Body, func(m ast.Node) bool {
							if se, ok := m.(*ast.SelectorExpr); ok && strings.HasPrefix(se.Sel.Name, "Allow") && namedType(info.TypeOf(se.X)) == "cty/function.Parameter" {
								s.flags[se.Sel.Name] = true
								if _, have := s.flagPos[se.Sel.Name]; !have {
									s.flagPos[se.Sel.Name] = x.Pos()
								}
							}
							return true
						})
					}
				}
			} else if id, ok := ast.Unparen(x.Fun).(*ast.Ident); ok {
				if b, ok := info.Uses[id].(*types.Builtin); ok && b.Name() != "len" {
					s.calls["builtin."+b.Name()]++
				}
			}
		case *ast.BranchStmt:
			s.exits[x.Tok.String()+under(x)]++
			s.order = append(s.order, x.Tok.String()+under(x))
		case *ast.ReturnStmt:
			var parts []string
			for _, r := range x.Results {
				parts = append(parts, returnShape(info, r))
			}
			s.exits["return("+strings.Join(parts, ",")+")"+under(x)]++
			s.order = append(s.order, "return("+strings.Join(parts, ",")+")"+under(x))
		case *ast.AssignStmt:
			// assignments to flags such as returnUnknown = true
			for i, lh := range x.Lhs {
				if id, ok := lh.(*ast.Ident); ok && i < len(x.Rhs) {
					if b, ok := ast.Unparen(x.Rhs[i]).(*ast.Ident); ok && (b.Name == "true" || b.Name == "false") {
						s.exits["set "+id.Name+"="+b.Name+under(x)]++
					}
				}
			}
		}
		return true
	})
	return s
}

func returnShape(info *types.Info, e ast.Expr) string {
	e = ast.Unparen(e)
	if isNilIdent(info, e) {
		return "nil"
	}
	if id, ok := e.(*ast.Ident); ok && (id.Name == "true" || id.Name == "false") {
		return id.Name
	}
	if call, ok := e.(*ast.CallExpr); ok {
		if f := callee(info, call); f != nil {
			return funcKey(f)
		}
	}
	if se, ok := e.(*ast.SelectorExpr); ok {
		return se.Sel.Name
	}
	if cl, ok := e.(*ast.CompositeLit); ok {
		return "lit:" + namedType(info.TypeOf(cl))
	}
	return "expr"
}

func diffCounts(a, b map[string]int) []string {
	var out []string
	keys := map[string]bool{}
	for k := range a {
		keys[k] = true
	}
	for k := range b {
		keys[k] = true
	}
	for k := range keys {
		if a[k] != b[k] {
			out = append(out, fmt.Sprintf("%s: positional×%d vs variadic×%d", k, a[k], b[k]))
		}
	}
	sort.Strings(out)
	return out
}

func runLoopAgreement(rr *RuleRun) {
	c := rr.Ctx
	info := c.Info("cty/function")
	union := map[string]map[string]bool{"positional": {}, "variadic": {}}
	for _, name := range []string{"Function.returnTypeForValues", "Function.Call"} {
		fd := rr.MustDecl("cty/function", name)
		if fd == nil {
			continue
		}
		pos, vari := findArgLoops(info, fd)
		key := "cty/function." + name + "/loops"
		if pos == nil || vari == nil {
			rr.Violation(key, fd.Pos(), "could not find both the positional and the variadic argument loop: one class of arguments is not checked")
			continue
		}
		ps, vs := loopSignatureCtx(c, info, pos), loopSignatureCtx(c, info, vari)
		for f := range ps.flags {
			union["positional"][f] = true
		}
		for f := range vs.flags {
			union["variadic"][f] = true
		}
		var diffs []string
		for f := range ps.flags {
			if !vs.flags[f] {
				diffs = append(diffs, "flag "+f+" is honoured only for positional parameters")
			}
		}
		for f := range vs.flags {
			if !ps.flags[f] {
				diffs = append(diffs, "flag "+f+" is honoured only for the variadic parameter")
			}
		}
		diffs = append(diffs, diffCounts(ps.calls, vs.calls)...)
		diffs = append(diffs, diffCounts(ps.exits, vs.exits)...)
		if len(diffs) == 0 && len(ps.order) == len(vs.order) {
			// the same checks, but in a different order: an argument that fails two of them is then treated
			// differently depending on whether it is positional or variadic
			for i := range ps.order {
				if ps.order[i] != vs.order[i] {
					diffs = append(diffs, fmt.Sprintf("the checks are made in a different order: exit #%d is '%s' in the positional loop and '%s' in the variadic loop", i+1, trunc(ps.order[i], 70), trunc(vs.order[i], 70)))
					break
				}
			}
		}
		sort.Strings(diffs)
		if len(diffs) > 0 {
			rr.Violation(key, vari.loop.Pos(), "positional and variadic loops disagree: "+strings.Join(diffs, "; "))
		} else {
			var fl []string
			for f := range ps.flags {
				fl = append(fl, f)
			}
			sort.Strings(fl)
			rr.OK(key, pos.loop.Pos(), "loops agree; flags "+strings.Join(fl, ","))
		}
	}
	for _, kind := range []string{"positional", "variadic"} {
		for _, f := range []string{"AllowMarked", "AllowNull", "AllowDynamicType", "AllowUnknown"} {
			if !union[kind][f] {
				rr.Violation("cty/function.Function/"+kind+"/"+f, token.NoPos, "declared flag "+f+" is never consulted for "+kind+" arguments")
			}
		}
	}
}

// ---------------------------------------------------------------------------

func runArgIndex(rr *RuleRun) {
	c := rr.Ctx
	info := c.Info("cty/function")
	for _, name := range []string{"Function.returnTypeForValues", "Function.Call"} {
		fd := rr.MustDecl("cty/function", name)
		if fd == nil {
			continue
		}
		pos, vari := findArgLoops(info, fd)
		for _, l := range []*argLoop{pos, vari} {
			if l == nil || l.index == nil {
				continue
			}
			kind := "positional"
			if l.variadic {
				kind = "variadic"
			}
			// adjusted index locals: defined from an expression mentioning the loop index and a len() call
			adjusted := map[types.Object]bool{}
			ast.Inspect(l.loop.Body, func(n ast.Node) bool {
				as, ok := n.(*ast.AssignStmt)
				if !ok || as.Tok != token.DEFINE || len(as.Lhs) != 1 || len(as.Rhs) != 1 {
					return true
				}
				if isAdjustedIndex(info, as.Rhs[0], l.index, nil) {
					adjusted[objOf(info, as.Lhs[0])] = true
				}
				return true
			})
			check := func(what string, idx ast.Expr, pos token.Pos) {
				key := fmt.Sprintf("cty/function.%s/%s/%s", name, kind, what)
				okIdx := false
				if l.variadic {
					okIdx = isAdjustedIndex(info, idx, l.index, adjusted)
				} else {
					okIdx = objOf(info, idx) == l.index
				}
				if okIdx {
					rr.OK(key, pos, "index "+exprStr(idx))
				} else if l.variadic {
					rr.Violation(key, pos, fmt.Sprintf("%s uses index %s inside the variadic loop: it must be offset by the number of positional parameters, otherwise the wrong argument is named/overwritten", what, exprStr(idx)))
				} else {
					rr.Violation(key, pos, fmt.Sprintf("%s uses index %s inside the positional loop instead of the loop index", what, exprStr(idx)))
				}
			}
			inspectNoLit(l.loop.Body, func(n ast.Node) bool {
				switch x := n.(type) {
				case *ast.CallExpr:
					if isCall(info, x, "cty/function.NewArgError", "cty/function.NewArgErrorf") && len(x.Args) >= 1 {
						check(callee(info, x).Name(), x.Args[0], x.Pos())
					} else if f := callee(info, x); f != nil && shortPkg(f.Pkg()) == "cty/function" {
						// a helper of the same package that forwards one of its int parameters as the index
						// of the argument errors it builds: the argument passed for it is the index
						if hd := c.Decl("cty/function", funcDeclKey(f)); hd != nil && hd.Body != nil {
							for pi := 0; pi < len(x.Args); pi++ {
								pid := paramIdent(hd, pi)
								if pid == nil {
									continue
								}
								po := info.Defs[pid]
								inspectNoLit(hd.Body, func(m ast.Node) bool {
									if hc, ok := m.(*ast.CallExpr); ok && isCall(info, hc, "cty/function.NewArgError", "cty/function.NewArgErrorf") && len(hc.Args) >= 1 && objOf(info, hc.Args[0]) == po {
										check(f.Name()+"→"+callee(info, hc).Name(), x.Args[pi], x.Pos())
									}
									return true
								})
							}
						}
					}
				case *ast.AssignStmt:
					for _, lh := range x.Lhs {
						if ix, ok := lh.(*ast.IndexExpr); ok {
							if t, ok := info.TypeOf(ix.X).Underlying().(*types.Slice); ok && isCtyValue(t.Elem()) {
								check("store "+exprStr(ix.X)+"[·]", ix.Index, ix.Pos())
							}
						}
					}
				}
				return true
			})
		}
	}
}

// isAdjustedIndex: e is `i + len(...)` (either order), or a local defined so.
func isAdjustedIndex(info *types.Info, e ast.Expr, index types.Object, adjusted map[types.Object]bool) bool {
	e = ast.Unparen(e)
	if o := objOf(info, e); o != nil {
		return adjusted[o]
	}
	be, ok := e.(*ast.BinaryExpr)
	if !ok || be.Op != token.ADD {
		return false
	}
	isLen := func(x ast.Expr) bool {
		call, ok := ast.Unparen(x).(*ast.CallExpr)
		return ok && isBuiltin(info, call, "len")
	}
	return (objOf(info, be.X) == index && isLen(be.Y)) || (objOf(info, be.Y) == index && isLen(be.X))
}

// ---------------------------------------------------------------------------

// specFieldCall reports whether call invokes field `field` of a function.Spec value.
func specFieldCall(info *types.Info, call *ast.CallExpr, field string) bool {
	se, ok := ast.Unparen(call.Fun).(*ast.SelectorExpr)
	if !ok || se.Sel.Name != field {
		return false
	}
	sel, ok := info.Selections[se]
	if !ok || sel.Kind() != types.FieldVal {
		return false
	}
	return namedType(info.TypeOf(se.X)) == "cty/function.Spec"
}

func deferRecovers(info *types.Info, d *ast.DeferStmt) bool {
	fl, ok := d.Call.Fun.(*ast.FuncLit)
	if !ok {
		return false
	}
	found := false
	ast.Inspect(fl.Body, func(n ast.Node) bool {
		if call, ok := n.(*ast.CallExpr); ok && isBuiltin(info, call, "recover") {
			found = true
		}
		return true
	})
	return found
}

func runImplAfterTypecheck(rr *RuleRun) {
	c := rr.Ctx
	// WHO: every invocation of Spec.Impl / Spec.Type in the module
	implSites, typeSites := 0, 0
	for short := range c.Pkgs {
		info := c.Info(short)
		for _, fd := range c.SortedDecls(short) {
			name := short + "." + declName(fd)
			ast.Inspect(fd.Body, func(n ast.Node) bool {
				call, ok := n.(*ast.CallExpr)
				if !ok {
					return true
				}
				if specFieldCall(info, call, "Impl") {
					implSites++
					if name == "cty/function.Function.Call" {
						rr.OK("who-calls-Impl/"+name, call.Pos(), "the protocol entry point")
					} else {
						rr.Violation("who-calls-Impl/"+name, call.Pos(), "Spec.Impl is invoked outside Function.Call: the declared parameter contract is bypassed")
					}
				}
				if specFieldCall(info, call, "Type") {
					typeSites++
					if name == "cty/function.Function.returnTypeForValues" {
						rr.OK("who-calls-Type/"+name, call.Pos(), "the type-check entry point")
					} else {
						rr.Violation("who-calls-Type/"+name, call.Pos(), "Spec.Type is invoked outside returnTypeForValues: argument checks are bypassed")
					}
				}
				return true
			})
		}
	}
	if implSites == 0 || typeSites == 0 {
		rr.Broken("no invocation of Spec.Impl / Spec.Type found")
		return
	}
	info := c.Info("cty/function")
	// Call: dominance
	if fd := rr.MustDecl("cty/function", "Function.Call"); fd != nil {
		f := c.CFG(fd.Body, info)
		argsObj := info.Defs[paramIdent(fd, 0)]
		var implCall, rtfv *ast.CallExpr
		var rtfvAssign *ast.AssignStmt
		var defers []*ast.DeferStmt
		inspectNoLit(fd.Body, func(n ast.Node) bool {
			switch x := n.(type) {
			case *ast.CallExpr:
				if specFieldCall(info, x, "Impl") {
					implCall = x
				}
				if isCall(info, x, "cty/function.Function.returnTypeForValues") {
					rtfv = x
				}
			case *ast.AssignStmt:
				if len(x.Rhs) == 1 {
					if call, ok := x.Rhs[0].(*ast.CallExpr); ok && isCall(info, call, "cty/function.Function.returnTypeForValues") {
						rtfvAssign = x
					}
				}
			case *ast.DeferStmt:
				if deferRecovers(info, x) {
					defers = append(defers, x)
				}
			}
			return true
		})
		key := "cty/function.Function.Call/Impl"
		if implCall == nil {
			return
		}
		if rtfv == nil || rtfvAssign == nil || !f.Dominates(rtfvAssign, implCall) {
			rr.Violation(key+"/typecheck-first", implCall.Pos(), "the Impl call is not dominated by a returnTypeForValues call")
		} else if len(rtfv.Args) != 1 || objOf(info, rtfv.Args[0]) != argsObj {
			rr.Violation(key+"/typecheck-first", rtfv.Pos(), "returnTypeForValues is not called on the caller's argument slice")
		} else {
			rr.OK(key+"/typecheck-first", implCall.Pos(), "dominated by returnTypeForValues(args)")
		}
		// facts: err == nil and !returnUnknown on every path to Impl
		var errObj, ruObj, expTy types.Object
		if rtfvAssign != nil && len(rtfvAssign.Lhs) == 3 {
			expTy = objOf(info, rtfvAssign.Lhs[0])
			errObj = objOf(info, rtfvAssign.Lhs[2])
		}
		ast.Inspect(fd.Body, func(n ast.Node) bool {
			if as, ok := n.(*ast.AssignStmt); ok && as.Tok == token.DEFINE && len(as.Lhs) == 1 {
				if id, ok := as.Lhs[0].(*ast.Ident); ok && id.Name == "returnUnknown" {
					ruObj = info.Defs[id]
				}
			}
			return true
		})
		spec := &FactSpec{Atom: func(cond ast.Expr, truth bool) []Fact {
			cond = ast.Unparen(cond)
			if be, ok := cond.(*ast.BinaryExpr); ok && be.Op == token.EQL && errObj != nil {
				if (objOf(info, be.X) == errObj && isNilIdent(info, be.Y)) || (objOf(info, be.Y) == errObj && isNilIdent(info, be.X)) {
					if truth {
						return []Fact{{"errnil", objKey(errObj)}}
					}
				}
			}
			if ruObj != nil && objOf(info, cond) == ruObj && !truth {
				return []Fact{{"not", objKey(ruObj)}}
			}
			return nil
		}}
		res := f.MustFacts(spec)
		facts, _ := res.At(implCall)
		if errObj == nil || !facts.has("errnil", objKey(errObj)) {
			rr.Violation(key+"/after-error-exit", implCall.Pos(), "Impl can run although returnTypeForValues returned an error (no dominating err != nil exit)")
		} else {
			rr.OK(key+"/after-error-exit", implCall.Pos(), "dominated by the err != nil exit")
		}
		if ruObj == nil || !facts.has("not", objKey(ruObj)) {
			rr.Violation(key+"/after-unknown-exit", implCall.Pos(), "Impl can run although the call must short-circuit to unknown (no dominating returnUnknown exit)")
		} else {
			rr.OK(key+"/after-unknown-exit", implCall.Pos(), "dominated by the returnUnknown exit")
		}
		okDefer := false
		for _, d := range defers {
			if f.Dominates(d, implCall) {
				okDefer = true
			}
		}
		if okDefer {
			rr.OK(key+"/recover", implCall.Pos(), "a recovering defer is registered on every path to Impl")
		} else {
			rr.Violation(key+"/recover", implCall.Pos(), "Impl is called without a recovering defer registered on every path: a callback panic escapes Call")
		}
		if len(implCall.Args) == 2 && objOf(info, implCall.Args[0]) == argsObj && expTy != nil && objOf(info, implCall.Args[1]) == expTy {
			rr.OK(key+"/same-args", implCall.Pos(), "Impl(args, expectedType) with the checked slice and type")
		} else {
			rr.Violation(key+"/same-args", implCall.Pos(), "Impl is not called with the argument slice the protocol rewrote and the checked return type")
		}
	}
	if fd := rr.MustDecl("cty/function", "Function.returnTypeForValues"); fd != nil {
		f := c.CFG(fd.Body, info)
		argsObj := info.Defs[paramIdent(fd, 0)]
		var typeCall *ast.CallExpr
		var defers []*ast.DeferStmt
		inspectNoLit(fd.Body, func(n ast.Node) bool {
			switch x := n.(type) {
			case *ast.CallExpr:
				if specFieldCall(info, x, "Type") {
					typeCall = x
				}
			case *ast.DeferStmt:
				if deferRecovers(info, x) {
					defers = append(defers, x)
				}
			}
			return true
		})
		if typeCall != nil {
			key := "cty/function.Function.returnTypeForValues/Type"
			okDefer := false
			for _, d := range defers {
				if f.Dominates(d, typeCall) {
					okDefer = true
				}
			}
			if okDefer && len(typeCall.Args) == 1 && objOf(info, typeCall.Args[0]) == argsObj {
				rr.OK(key, typeCall.Pos(), "Type(args) under a recovering defer")
			} else {
				rr.Violation(key, typeCall.Pos(), "Spec.Type is not called on the rewritten args under a recovering defer")
			}
		}
	}
}

// ---------------------------------------------------------------------------

func runConformanceAssert(rr *RuleRun) {
	c := rr.Ctx
	info := c.Info("cty/function")
	fd := rr.MustDecl("cty/function", "Function.Call")
	if fd == nil {
		return
	}
	f := c.CFG(fd.Body, info)
	// retVal: the variable assigned from Spec.Impl
	var retVal types.Object
	var expTy types.Object
	inspectNoLit(fd.Body, func(n ast.Node) bool {
		if as, ok := n.(*ast.AssignStmt); ok && len(as.Rhs) == 1 {
			if call, ok := as.Rhs[0].(*ast.CallExpr); ok {
				if specFieldCall(info, call, "Impl") && len(as.Lhs) >= 1 {
					retVal = objOf(info, as.Lhs[0])
				}
				if isCall(info, call, "cty/function.Function.returnTypeForValues") && len(as.Lhs) >= 1 && isCtyType(info.TypeOf(as.Lhs[0])) {
					expTy = objOf(info, as.Lhs[0])
				}
			}
		}
		return true
	})
	if retVal == nil || expTy == nil {
		rr.Broken("cannot find the variable holding Impl's result / the expected type")
		return
	}
	spec := &FactSpec{Atom: func(cond ast.Expr, truth bool) []Fact {
		// errs != nil  with errs := retVal.Type().TestConformance(expectedType)
		be, ok := ast.Unparen(cond).(*ast.BinaryExpr)
		if !ok || be.Op != token.EQL || !truth {
			return nil
		}
		x := be.X
		if isNilIdent(info, x) {
			x = be.Y
		} else if !isNilIdent(info, be.Y) {
			return nil
		}
		var call *ast.CallExpr
		if o := objOf(info, x); o != nil {
			if st, idx, rhs := findDefine(info, fd, o); st != nil && idx == 0 && len(rhs) == 1 {
				call, _ = ast.Unparen(rhs[0]).(*ast.CallExpr)
			}
		} else {
			call, _ = ast.Unparen(x).(*ast.CallExpr)
		}
		if call == nil || !isCall(info, call, "cty.Type.TestConformance") || len(call.Args) != 1 || objOf(info, call.Args[0]) != expTy {
			return nil
		}
		// receiver must be retVal.Type()
		se := call.Fun.(*ast.SelectorExpr)
		if subjKey(info, se.X) != objKey(retVal)+".ty" {
			return nil
		}
		return []Fact{{"conforms", objKey(retVal)}}
	}}
	res := f.MustFacts(spec)
	n := 0
	for _, ret := range f.Returns() {
		if len(ret.Results) != 2 || !isNilIdent(info, ret.Results[1]) {
			continue
		}
		if !mentions(info, ret.Results[0], map[types.Object]bool{retVal: true}) {
			continue
		}
		n++
		facts, _ := res.At(ret)
		key := "cty/function.Function.Call/return " + exprStr(ret.Results[0])
		if facts.has("conforms", objKey(retVal)) {
			rr.OK(key, ret.Pos(), "dominated by TestConformance(expectedType) == nil")
		} else {
			rr.Violation(key, ret.Pos(), "the implementation's result is returned without a dominating conformance check against the checked return type")
		}
	}
	if n == 0 {
		rr.Broken("no success return of Impl's result found in Call")
	}
}

// ---------------------------------------------------------------------------

func runRefineApplied(rr *RuleRun) {
	c := rr.Ctx
	info := c.Info("cty/function")
	fd := rr.MustDecl("cty/function", "Function.Call")
	if fd == nil {
		return
	}
	f := c.CFG(fd.Body, info)
	// find the defer whose literal calls RefineWith
	var def *ast.DeferStmt
	inspectNoLit(fd.Body, func(n ast.Node) bool {
		if d, ok := n.(*ast.DeferStmt); ok {
			if fl, ok := d.Call.Fun.(*ast.FuncLit); ok {
				ast.Inspect(fl.Body, func(m ast.Node) bool {
					if call, ok := m.(*ast.CallExpr); ok && isCall(info, call, "cty.Value.RefineWith") {
						def = d
					}
					return true
				})
			}
		}
		return true
	})
	key := "cty/function.Function.Call/refine-defer"
	if def == nil {
		rr.Violation(key, fd.Pos(), "Call never applies Spec.RefineResult")
		return
	}
	// conditions enclosing the defer: walk up to the function body
	var conds []ast.Expr
	var cur ast.Node = def
	for cur != nil && cur != ast.Node(fd.Body) {
		par := c.Parent(cur)
		if ifs, ok := par.(*ast.IfStmt); ok {
			if ifs.Body == cur {
				conds = append(conds, splitAnd(ifs.Cond)...)
			} else if ifs.Else == cur {
				conds = append(conds, &ast.UnaryExpr{Op: token.NOT, X: ifs.Cond})
			}
		}
		cur = par
	}
	var extra []string
	for _, cd := range conds {
		if !isRefineRegistrationCond(info, cd) {
			extra = append(extra, exprStr(cd))
		}
	}
	if len(extra) > 0 {
		rr.Violation(key, def.Pos(), "the RefineResult defer is registered only under extra condition(s) "+strings.Join(extra, ", ")+": declared refinements are skipped for some typed results")
	} else {
		rr.OK(key, def.Pos(), "registered under 'refiner declared' and 'not short-circuiting' only")
	}
	// every value-producing return after the short-circuit exit must come after the defer
	for _, ret := range f.Returns() {
		if len(ret.Results) != 2 || !isNilIdent(info, ret.Results[1]) {
			continue
		}
		if call, ok := ast.Unparen(ret.Results[0]).(*ast.CallExpr); ok {
			// the short-circuit return: unknown results are not refined by design of the protocol? They are: check position
			_ = call
		}
		// the defer must be registered before (in source order and dominance of its enclosing if)
		var anchor ast.Node = def
		for {
			par := c.Parent(anchor)
			if par == nil || par == ast.Node(fd.Body) {
				break
			}
			anchor = par
		}
		k2 := "cty/function.Function.Call/refine-before/return " + trunc(exprStr(ret.Results[0]), 40)
		if st, ok := anchor.(*ast.IfStmt); ok {
			// the if statement's condition node dominates the return
			if f.Dominates(st.Cond, ret) || (st.Init != nil && f.Dominates(st.Init, ret)) {
				rr.OK(k2, ret.Pos(), "the registration point dominates this return")
				continue
			}
		} else if f.Dominates(anchor, ret) {
			rr.OK(k2, ret.Pos(), "the registration point dominates this return")
			continue
		}
		rr.Violation(k2, ret.Pos(), "a value is returned on a path that never passed the RefineResult registration")
	}
	// inside the defer: conditions guarding RefineWith
	fl := def.Call.Fun.(*ast.FuncLit)
	ast.Inspect(fl.Body, func(n ast.Node) bool {
		call, ok := n.(*ast.CallExpr)
		if !ok || !isCall(info, call, "cty.Value.RefineWith") {
			return true
		}
		var inner []ast.Expr
		var cur ast.Node = call
		for cur != nil && cur != ast.Node(fl.Body) {
			par := c.Parent(cur)
			if ifs, ok := par.(*ast.IfStmt); ok && ifs.Body == cur {
				inner = append(inner, ifs.Cond)
			}
			cur = par
		}
		var bad []string
		for _, cd := range inner {
			if !isRefineApplyCond(info, cd) {
				bad = append(bad, exprStr(cd))
			}
		}
		k3 := "cty/function.Function.Call/refine-defer/apply"
		if len(bad) > 0 {
			rr.Violation(k3, call.Pos(), "RefineWith is applied only under extra condition(s) "+strings.Join(bad, ", "))
		} else {
			rr.OK(k3, call.Pos(), "applied when the result is non-nil and (known or typed)")
		}
		return true
	})
}

func splitAnd(e ast.Expr) []ast.Expr {
	e = ast.Unparen(e)
	if be, ok := e.(*ast.BinaryExpr); ok && be.Op == token.LAND {
		return append(splitAnd(be.X), splitAnd(be.Y)...)
	}
	return []ast.Expr{e}
}

// allowed registration conditions: X != nil (X of func type = the refiner) and !returnUnknown / !dynTypeArgs style bools
func isRefineRegistrationCond(info *types.Info, e ast.Expr) bool {
	e = ast.Unparen(e)
	if be, ok := e.(*ast.BinaryExpr); ok && be.Op == token.NEQ {
		x := be.X
		if isNilIdent(info, x) {
			x = be.Y
		} else if !isNilIdent(info, be.Y) {
			return false
		}
		_, isFunc := info.TypeOf(x).Underlying().(*types.Signature)
		return isFunc
	}
	if u, ok := e.(*ast.UnaryExpr); ok && u.Op == token.NOT {
		if id, ok := ast.Unparen(u.X).(*ast.Ident); ok {
			return id.Name == "returnUnknown" || id.Name == "dynTypeArgs"
		}
	}
	return false
}

// allowed apply conditions: val != NilVal ; val.IsKnown() || val.Type() != DynamicPseudoType
func isRefineApplyCond(info *types.Info, e ast.Expr) bool {
	e = ast.Unparen(e)
	switch x := e.(type) {
	case *ast.BinaryExpr:
		switch x.Op {
		case token.LAND:
			// the nil test and the known-or-typed test written as one condition
			return isRefineApplyCond(info, x.X) && isRefineApplyCond(info, x.Y)
		case token.LOR:
			return isRefineApplyCond(info, x.X) && isRefineApplyCond(info, x.Y) && (containsIsKnown(info, x) && containsTypeNotDynamic(info, x))
		case token.NEQ:
			if isPkgVar(info, x.Y, "cty", "NilVal") || isPkgVar(info, x.X, "cty", "NilVal") {
				return true
			}
			return containsTypeNotDynamic(info, x)
		}
	case *ast.CallExpr:
		return isCall(info, x, "cty.Value.IsKnown")
	}
	return false
}

func containsIsKnown(info *types.Info, e ast.Expr) bool {
	found := false
	ast.Inspect(e, func(n ast.Node) bool {
		if c, ok := n.(*ast.CallExpr); ok && isCall(info, c, "cty.Value.IsKnown") {
			found = true
		}
		return true
	})
	return found
}

func containsTypeNotDynamic(info *types.Info, e ast.Expr) bool {
	found := false
	ast.Inspect(e, func(n ast.Node) bool {
		if be, ok := n.(*ast.BinaryExpr); ok && be.Op == token.NEQ {
			// <result>.Type() != cty.DynamicPseudoType: the test must be on the value's own type
			// (the checked return type can be dynamic while the value is typed)
			isValType := func(x ast.Expr) bool {
				c, ok := ast.Unparen(x).(*ast.CallExpr)
				return ok && isCall(info, c, "cty.Value.Type")
			}
			if (kindOfTypeExpr(info, be.Y) == "Dynamic" && isValType(be.X)) || (kindOfTypeExpr(info, be.X) == "Dynamic" && isValType(be.Y)) {
				found = true
			}
		}
		return true
	})
	return found
}

// ---------------------------------------------------------------------------

func runCallMarks(rr *RuleRun) {
	c := rr.Ctx
	info := c.Info("cty/function")
	call := rr.MustDecl("cty/function", "Function.Call")
	rtfv := rr.MustDecl("cty/function", "Function.returnTypeForValues")
	if call == nil || rtfv == nil {
		return
	}
	// resultMarks variable: the []ValueMarks local of Call
	var resultMarks types.Object
	ast.Inspect(call.Body, func(n ast.Node) bool {
		if vs, ok := n.(*ast.ValueSpec); ok {
			for _, id := range vs.Names {
				if o := info.Defs[id]; o != nil && o.Type().String() == "[]"+modPath+"/cty.ValueMarks" {
					resultMarks = o
				}
			}
		}
		return true
	})
	if resultMarks == nil {
		rr.Violation("cty/function.Function.Call/resultMarks", call.Pos(), "Call keeps no collection of the marks it strips")
		return
	}
	// every mark set that reaches resultMarks comes out of an UnmarkDeep call: Marks() / Unmark() see only
	// the top-level marks of an argument
	deepMarks := map[types.Object]bool{}
	inspectNoLit(call.Body, func(n ast.Node) bool {
		if as, ok := n.(*ast.AssignStmt); ok && len(as.Rhs) == 1 && len(as.Lhs) == 2 {
			if cl, ok := as.Rhs[0].(*ast.CallExpr); ok && isCall(info, cl, "cty.Value.UnmarkDeep") {
				if o := objOf(info, as.Lhs[1]); o != nil {
					deepMarks[o] = true
				}
			}
		}
		return true
	})
	inspectNoLit(call.Body, func(n ast.Node) bool {
		as, ok := n.(*ast.AssignStmt)
		if !ok {
			return true
		}
		for i, lh := range as.Lhs {
			if objOf(info, lh) != resultMarks || i >= len(as.Rhs) {
				continue
			}
			ap, ok := as.Rhs[i].(*ast.CallExpr)
			if !ok || !isBuiltin(info, ap, "append") || len(ap.Args) < 2 || objOf(info, ap.Args[0]) != resultMarks {
				continue
			}
			for _, a := range ap.Args[1:] {
				k := "cty/function.Function.Call/resultMarks←" + trunc(exprStr(a), 40)
				if o := objOf(info, a); o != nil && deepMarks[o] {
					rr.OK(k, a.Pos(), "the collected marks are the result of UnmarkDeep")
				} else {
					rr.Violation(k, a.Pos(), "the marks collected for the result ("+exprStr(a)+") do not come out of UnmarkDeep: Marks() and Unmark() see only the top-level marks, so marks on nested members of the argument are missing from the result")
				}
			}
		}
		return true
	})
	for _, fd := range []*ast.FuncDecl{call, rtfv} {
		pos, vari := findArgLoops(info, fd)
		for _, l := range []*argLoop{pos, vari} {
			if l == nil {
				continue
			}
			kind := "positional"
			if l.variadic {
				kind = "variadic"
			}
			key := fmt.Sprintf("cty/function.%s/%s/unmark", declName(fd), kind)
			// every Unmark-family call on the argument inside the loop
			var deepCalls []*ast.AssignStmt
			shallow := false
			inspectNoLit(l.loop.Body, func(n ast.Node) bool {
				switch x := n.(type) {
				case *ast.CallExpr:
					if isCall(info, x, "cty.Value.Unmark", "cty.Value.unmarkForce") {
						shallow = true
						rr.Violation(key+"/shallow", x.Pos(), "an argument of a parameter that does not allow marks is unmarked only shallowly: nested marks reach the implementation and are not moved to the result")
					}
				case *ast.AssignStmt:
					if len(x.Rhs) == 1 && len(x.Lhs) == 2 {
						if cl, ok := x.Rhs[0].(*ast.CallExpr); ok && isCall(info, cl, "cty.Value.UnmarkDeep") {
							if se, ok := cl.Fun.(*ast.SelectorExpr); ok && objOf(info, se.X) == l.valObj {
								deepCalls = append(deepCalls, x)
							}
						}
					}
				}
				return true
			})
			if shallow {
				continue
			}
			if len(deepCalls) != 1 {
				rr.Violation(key, l.loop.Pos(), fmt.Sprintf("expected exactly one UnmarkDeep of the argument in the %s loop, found %d", kind, len(deepCalls)))
				continue
			}
			dc := deepCalls[0]
			unw := objOf(info, dc.Lhs[0])
			marks := objOf(info, dc.Lhs[1])
			// the store into the args copy must store unw
			stored := false
			appended := false
			inspectNoLit(l.loop.Body, func(n ast.Node) bool {
				switch x := n.(type) {
				case *ast.AssignStmt:
					for i, lh := range x.Lhs {
						if ix, ok := lh.(*ast.IndexExpr); ok && i < len(x.Rhs) {
							if t, ok := info.TypeOf(ix.X).Underlying().(*types.Slice); ok && isCtyValue(t.Elem()) {
								if objOf(info, x.Rhs[i]) == unw {
									stored = true
								} else {
									rr.Violation(key+"/store", x.Pos(), "the argument copy receives "+exprStr(x.Rhs[i])+" instead of the deep-unmarked value")
								}
							}
						}
						if objOf(info, lh) == resultMarks && i < len(x.Rhs) {
							if ap, ok := x.Rhs[i].(*ast.CallExpr); ok && isBuiltin(info, ap, "append") && len(ap.Args) >= 2 && objOf(info, ap.Args[0]) == resultMarks {
								for _, a := range ap.Args[1:] {
									if objOf(info, a) == marks {
										appended = true
									}
								}
							}
						}
					}
				}
				return true
			})
			if !stored {
				// the replacement may be delegated to a helper of the same package: args = helper(args, i, unw),
				// where the helper stores that parameter into an element of a []cty.Value it returns
				installFindFuncDecl(c)
				inspectNoLit(l.loop.Body, func(n ast.Node) bool {
					as, ok := n.(*ast.AssignStmt)
					if !ok || len(as.Rhs) != 1 || len(as.Lhs) != 1 {
						return true
					}
					cl, ok := as.Rhs[0].(*ast.CallExpr)
					if !ok {
						return true
					}
					f := callee(info, cl)
					if f == nil || f.Pkg() == nil || shortPkg(f.Pkg()) != "cty/function" {
						return true
					}
					lt, ok := info.TypeOf(as.Lhs[0]).Underlying().(*types.Slice)
					if !ok || !isCtyValue(lt.Elem()) {
						return true
					}
					cd := findFuncDecl(f)
					if cd == nil || cd.Body == nil {
						return true
					}
					for ai, a := range cl.Args {
						if objOf(info, a) != unw {
							continue
						}
						pid := paramIdent(cd, ai)
						if pid == nil {
							continue
						}
						po := info.Defs[pid]
						ast.Inspect(cd.Body, func(m ast.Node) bool {
							if a2, ok := m.(*ast.AssignStmt); ok {
								for i, lh := range a2.Lhs {
									if ix, ok := lh.(*ast.IndexExpr); ok && i < len(a2.Rhs) && objOf(info, a2.Rhs[i]) == po {
										if t, ok := info.TypeOf(ix.X).Underlying().(*types.Slice); ok && isCtyValue(t.Elem()) {
											stored = true
										}
									}
								}
							}
							return true
						})
					}
					return true
				})
			}
			if !stored {
				rr.Violation(key+"/store", dc.Pos(), "the deep-unmarked value never replaces the argument: the callback still sees marks")
				continue
			}
			if fd == call {
				if marks == nil || !appended {
					rr.Violation(key+"/collect", dc.Pos(), "the marks removed from the argument are not appended to the result marks")
					continue
				}
			}
			// the UnmarkDeep must be conditioned only on !AllowMarked (and, at most, a deep ContainsMarked test of the same value)
			badCond := ""
			for p := c.Parent(dc); p != nil && p != ast.Node(l.loop.Body); p = c.Parent(p) {
				ifs, ok := p.(*ast.IfStmt)
				if !ok {
					continue
				}
				inElse := ifs.Else != nil && ifs.Else.Pos() <= dc.Pos() && dc.End() <= ifs.Else.End()
				for _, term := range splitAnd(ifs.Cond) {
					t := ast.Unparen(term)
					okTerm := false
					if u, ok := t.(*ast.UnaryExpr); ok && u.Op == token.NOT && !inElse {
						if se, ok := ast.Unparen(u.X).(*ast.SelectorExpr); ok && se.Sel.Name == "AllowMarked" {
							okTerm = true
						}
					}
					if cl, ok := t.(*ast.CallExpr); ok && !inElse && isCall(info, cl, "cty.Value.ContainsMarked") {
						if se, ok := cl.Fun.(*ast.SelectorExpr); ok && objOf(info, se.X) == l.valObj {
							okTerm = true
						}
					}
					if !okTerm {
						badCond = exprStr(term)
					}
				}
			}
			// … and the loop itself runs whenever there are such arguments: a condition around the loop may only ask
			// whether the parameter exists or whether there are arguments at all
			for p := c.Parent(l.loop); p != nil && p != ast.Node(fd.Body) && badCond == ""; p = c.Parent(p) {
				ifs, ok := p.(*ast.IfStmt)
				if !ok || !(ifs.Body.Pos() <= l.loop.Pos() && l.loop.End() <= ifs.Body.End()) {
					continue
				}
				for _, term := range splitAnd(ifs.Cond) {
					t := ast.Unparen(term)
					okTerm := false
					if be, ok := t.(*ast.BinaryExpr); ok {
						for _, side := range []ast.Expr{be.X, be.Y} {
							if se, ok := ast.Unparen(side).(*ast.SelectorExpr); ok && (se.Sel.Name == "VarParam" || se.Sel.Name == "Params") {
								okTerm = true
							}
							if cl, ok := ast.Unparen(side).(*ast.CallExpr); ok && isBuiltin(info, cl, "len") {
								okTerm = true
							}
							if id, ok := ast.Unparen(side).(*ast.Ident); ok && id.Name == "nil" {
								okTerm = true // is there a slice of such arguments at all
							}
						}
					}
					if !okTerm {
						badCond = exprStr(term)
					}
				}
			}
			if badCond != "" {
				rr.Violation(key+"/condition", dc.Pos(), "the deep unmark of an argument whose parameter does not allow marks is additionally conditioned on '"+badCond+"': arguments for which that is false reach the callbacks with their (nested) marks")
				continue
			}
			rr.OK(key, dc.Pos(), "UnmarkDeep → argument copy"+map[bool]string{true: " + result marks", false: ""}[fd == call])
		}
	}
	// value-producing returns of Call go through WithMarks(resultMarks...)
	f := c.CFG(call.Body, info)
	var retVal types.Object
	inspectNoLit(call.Body, func(n ast.Node) bool {
		if as, ok := n.(*ast.AssignStmt); ok && len(as.Rhs) == 1 && len(as.Lhs) == 2 {
			if cl, ok := as.Rhs[0].(*ast.CallExpr); ok && specFieldCall(info, cl, "Impl") {
				retVal = objOf(info, as.Lhs[0])
			}
		}
		return true
	})
	isWithMarks := func(e ast.Expr) bool {
		cl, ok := ast.Unparen(e).(*ast.CallExpr)
		return ok && isCall(info, cl, "cty.Value.WithMarks") && cl.Ellipsis.IsValid() && len(cl.Args) == 1 && objOf(info, cl.Args[0]) == resultMarks
	}
	spec := &FactSpec{
		Atom: func(cond ast.Expr, truth bool) []Fact {
			// len(resultMarks) > 0 false ⇒ nothing to re-apply
			be, ok := ast.Unparen(cond).(*ast.BinaryExpr)
			if !ok || retVal == nil {
				return nil
			}
			isLenRM := func(e ast.Expr) bool {
				cl, ok := ast.Unparen(e).(*ast.CallExpr)
				return ok && isBuiltin(info, cl, "len") && len(cl.Args) == 1 && objOf(info, cl.Args[0]) == resultMarks
			}
			isZero := func(e ast.Expr) bool { v, ok := constInt(info, e); return ok && v == 0 }
			if ((be.Op == token.GTR && isLenRM(be.X) && isZero(be.Y)) || (be.Op == token.NEQ && isLenRM(be.X) && isZero(be.Y))) && !truth {
				return []Fact{{"remarked", objKey(retVal)}}
			}
			if be.Op == token.EQL && isLenRM(be.X) && isZero(be.Y) && truth {
				return []Fact{{"remarked", objKey(retVal)}}
			}
			return nil
		},
		Effects: func(n ast.Node) []Effect {
			as, ok := n.(*ast.AssignStmt)
			if !ok || retVal == nil || len(as.Lhs) != 1 || len(as.Rhs) != 1 || objOf(info, as.Lhs[0]) != retVal {
				return nil
			}
			if isWithMarks(as.Rhs[0]) {
				if se, ok := as.Rhs[0].(*ast.CallExpr).Fun.(*ast.SelectorExpr); ok && objOf(info, se.X) == retVal {
					return []Effect{{Assert: &Fact{"remarked", objKey(retVal)}}}
				}
			}
			return nil
		},
	}
	res := f.MustFacts(spec)
	for _, ret := range f.Returns() {
		if len(ret.Results) != 2 || !isNilIdent(info, ret.Results[1]) {
			continue
		}
		e := ret.Results[0]
		key := "cty/function.Function.Call/marks/return " + trunc(exprStr(e), 50)
		switch {
		case isWithMarks(e):
			rr.OK(key, ret.Pos(), "wrapped in WithMarks(resultMarks...)")
		case retVal != nil && objOf(info, e) == retVal:
			facts, _ := res.At(ret)
			if facts.has("remarked", objKey(retVal)) {
				rr.OK(key, ret.Pos(), "result re-marked on every path that collected marks")
			} else {
				rr.Violation(key, ret.Pos(), "the implementation's result is returned on a path where the stripped argument marks were not re-applied")
			}
		default:
			rr.Violation(key, ret.Pos(), "a value is returned without the marks stripped from the arguments")
		}
	}
}
